#!/bin/bash
# Re-run every agent-written demo on /repo's current HEAD with and without its patch (no test-suite): tells which seeds
# still manifest after later fix: commits.  Writes seeded/<name>/demo_on_head.json.
cd /verif/seeded
HEAD=$(git -C /repo rev-parse --short HEAD)
for d in C??_?; do
  [ -f $d/demo.py ] || continue
  WT=/tmp/wt/rv_$d
  git -C /repo worktree remove --force $WT >/dev/null 2>&1
  git -C /repo worktree add --detach $WT HEAD >/dev/null 2>&1
  cp $d/demo.py $WT/_seed_demo.py
  run() { ( cd $WT; if grep -q "^def test_" _seed_demo.py && ! grep -q "__main__" _seed_demo.py; then PYTHONPATH=$WT timeout 300 /venv/bin/python -m pytest -q -p no:cacheprovider _seed_demo.py >/dev/null 2>&1; else PYTHONPATH=$WT timeout 300 /venv/bin/python _seed_demo.py >/dev/null 2>&1; fi; echo $? ); }
  CLEAN=$(run)
  if git -C $WT apply /verif/seeded/$d/patch.diff 2>/dev/null || git -C $WT apply --3way /verif/seeded/$d/patch.diff 2>/dev/null; then WITH=$(run); AP=ok; else WITH=na; AP=fail; fi
  git -C /repo worktree remove --force $WT
  echo "{\"repo_head\":\"$HEAD\",\"apply\":\"$AP\",\"demo_clean_rc\":\"$CLEAN\",\"demo_with_patch_rc\":\"$WITH\"}" > $d/demo_on_head.json
  echo "$d clean=$CLEAN with=$WITH apply=$AP"
done
