#!/bin/bash
# schema-validate MANIFEST.json and every evidence file (uses the tooling venv's jsonschema)
cd "$(dirname "$0")"
python3-vt - <<'PY'
import json, glob, jsonschema, sys
ok = True
try:
    jsonschema.validate(json.load(open('MANIFEST.json')), json.load(open('/root/.vp/MANIFEST.schema.json')))
    print('MANIFEST ok')
except Exception as e:
    ok = False; print('MANIFEST', str(e)[:300])
s = json.load(open('/root/.vp/EVIDENCE.schema.json'))
for f in sorted(glob.glob('evidence/C*.json')):
    try:
        jsonschema.validate(json.load(open(f)), s); print(f, 'ok')
    except Exception as e:
        ok = False; print(f, 'INVALID', str(e)[:300])
sys.exit(0 if ok else 1)
PY
