#!/usr/bin/env python3
"""Regenerate MANIFEST.json from the harness modules' metadata (run after adding/changing a harness)."""
import importlib, json, os, sys
ROOT = os.path.dirname(os.path.abspath(__file__))
sys.path.insert(0, ROOT)
props = [json.loads(l) for l in open(os.path.join(ROOT, "properties.jsonl"))]
checks, na = [], []
NA_REASONS = json.load(open(os.path.join(ROOT, "not_applicable.json"))) if os.path.exists(os.path.join(ROOT, "not_applicable.json")) else {}
for p in props:
    pid = p["id"]
    try:
        m = importlib.import_module("harness.%s" % pid)
    except ModuleNotFoundError as e:
        if "crosshair" in str(e):
            raise
        na.append({"property_id": pid, "reason": NA_REASONS.get(pid, "harness not built yet (work in progress); see DESIGN.md section 4 for the planned solver-based encoding")})
        continue
    checks.append({
        "property_id": pid,
        "quick_cmd": "./check %s --tier quick" % pid,
        "thorough_cmd": "./check %s --tier thorough" % pid,
        "evidence_file": "/verif/evidence/%s.json" % pid,
        "replay_cmd_template": "./check --replay {path}",
        "engine": "symx",
        "level_claimed": {"category": "other", "text": m.LEVEL_TEXT, "design_ref": m.DESIGN_REF},
        "level_note": m.LEVEL_NOTE,
        "technique": m.TECHNIQUE,
    })
man = {
    "version": 1,
    "setup_cmd": "./setup.sh",
    "hooks": {"guard": "JOBLIB_VERIF", "enable": "no hooks in /repo: every seam is a module global / OS entry point replaced from the harness at run time (checks import joblib straight from /repo's working tree)",
              "baseline_off_cmd": "cd /repo && /venv/bin/python -m pytest -ra -q -p no:cacheprovider --timeout=900 --continue-on-collection-errors",
              "source_commits": [], "add_only": True},
    "engines": [{"name": "symx", "path": "/verif/symx", "serves_properties": [c["property_id"] for c in checks],
                 "kind_free_text": "bounded symbolic execution of joblib's real Python source (CrossHair 0.0.110 in-process, z3 decides every branch), plus direct z3 QF_FP lemmas for float kernels that were cut; counterexamples replayed concretely"}],
    "checks": checks,
    "not_applicable": na,
    "notes": "All checks: ./check <id> --tier quick|thorough. Exit 0 / 1 (VIOLATION line) / 3 (harness error). known_findings.json lists recorded and fixed genuine defects. See DESIGN.md.",
}
json.dump(man, open(os.path.join(ROOT, "MANIFEST.json"), "w"), indent=1)
print("checks:", [c["property_id"] for c in checks], "n/a:", [n["property_id"] for n in na])
