#!/bin/bash
# Offline set-up of the verification environment (idempotent).
#  .venv : overlay venv on top of /venv (joblib's own environment) + crosshair-tool + z3-solver
#  .np   : numpy, only put on sys.path by the obligations that need the real thing (C19)
set -e
cd "$(dirname "$0")"
export PIP_NO_INDEX=1 PIP_DISABLE_PIP_VERSION_CHECK=1
WH=/opt/veriftools/wheels
if [ ! -x .venv/bin/python ] || ! .venv/bin/python -c "import crosshair, z3" 2>/dev/null; then
  rm -rf .venv
  /venv/bin/python -m venv .venv
  SP=$(.venv/bin/python -c "import sysconfig; print(sysconfig.get_paths()['purelib'])")
  echo "import site; site.addsitedir('/venv/lib/python3.12/site-packages')" > "$SP/_overlay.pth"
  .venv/bin/python -m pip install -q --no-index --find-links $WH crosshair-tool z3-solver
fi
if [ ! -d .np/numpy ]; then
  rm -rf .np
  .venv/bin/python -m pip install -q --no-index --find-links $WH --target .np numpy || echo "numpy not installable: C19 real-numpy obligations will be skipped"
fi
.venv/bin/python -c "import crosshair, z3, joblib; print('setup ok: crosshair', crosshair.__version__, 'z3', z3.get_version_string(), 'joblib from', joblib.__file__)"
