"""Real threads, real joblib, public backend API.  The backend keeps the default no-op abort_everything, so a batch
of the failed call 0 is still running when call 1 starts; it completes while call 1 is inside backend.configure()
(i.e. after Parallel reset its abort flags, before it used to renew its call id)."""
import threading, time, sys
from concurrent.futures import ThreadPoolExecutor
from joblib import Parallel, delayed
from joblib._parallel_backends import ParallelBackendBase

late_done = threading.Event(); in_configure = threading.Event()
ncfg = [0]
class MyBackend(ParallelBackendBase):
    supports_retrieve_callback = True
    supports_sharedmem = True
    uses_threads = True
    def effective_n_jobs(self, n_jobs): return 2
    def configure(self, n_jobs=1, parallel=None, **kw):
        self.parallel = parallel
        if not hasattr(self, "ex"): self.ex = ThreadPoolExecutor(2)
        ncfg[0] += 1
        if ncfg[0] == 2:
            in_configure.set()
            late_done.wait(5); time.sleep(0.1)      # a slow start-up of the second call
        return 2
    def submit(self, func, callback=None):
        fut = self.ex.submit(func); fut.add_done_callback(callback); return fut
    def retrieve_result_callback(self, fut): return fut.result()

executed = []
def task0(i):
    executed.append(("call0", i))
    if i == 0:
        time.sleep(0.05); raise ValueError("boom")
    if i == 1:
        in_configure.wait(5); time.sleep(0.05); late_done.set(); return "late"
    return i
be = MyBackend(nesting_level=0)
p = Parallel(n_jobs=2, backend=be, pre_dispatch=2, batch_size=1)
try:
    p(delayed(task0)(i) for i in range(6)); print("no error?!")
except ValueError as e:
    print("call 0 raised", e)
n0 = len(executed)
def t1(i):
    executed.append(("call1", i)); time.sleep(0.1 * (i + 1)); return 100 + i
try:
    r = p(delayed(t1)(i) for i in range(3)); print("call 1 returned", r); ok = r == [100, 101, 102]
except BaseException as e:
    print("call 1 raised", type(e).__name__, e); ok = False
left = [x for x in executed[n0:] if x[0] == "call0"]
print("tasks of call 0 started after it had failed:", left)
ok = ok and not left
print("OK" if ok else "VIOLATION"); sys.exit(0 if ok else 1)
