"""The four *recorded* findings (known_findings.json, status "recorded") on the real code.
Usage: PYTHONPATH=<joblib checkout>[:<dir with numpy>] python this_file.py   -> prints one line per finding; exit 0."""
import functools
import os
import shutil
import sys
import tempfile
import threading
import time

import joblib
from joblib import Memory, Parallel, delayed

root = tempfile.mkdtemp(prefix="verif_recorded_")
try:
    # KF-C08-aliased-tuples
    t = (1, 2)
    u = tuple([1, 2])
    print("KF-C08-aliased-tuples:", "REPRODUCED" if joblib.hash([t, t]) != joblib.hash([t, u]) else "not reproduced",
          "- hash([t, t]) vs hash([t, equal copy of t])")

    # KF-C02-wraps-differing-defaults
    def inner(a, b=2):
        return None

    @functools.wraps(inner)
    def wd(a, b=5):
        return ("wd", a, b)
    cwd = Memory(os.path.join(root, "c02"), verbose=0).cache(wd)
    first, second = cwd(1, 2), cwd(1)
    print("KF-C02-wraps-differing-defaults:", "REPRODUCED" if second != wd(1) else "not reproduced",
          "- wd(1, 2) = %r, then wd(1) = %r (the function computes %r)" % (first, second, wd(1)))

    # KF-C16-producer-blocks-delivery: the producer hands out item 2 only once the consumer has seen a result
    seen_first = threading.Event()

    def work(i):
        return i

    def producer():
        for i in range(6):
            if i == 2:
                seen_first.wait(3.0)          # gives up after 3 s so that the script terminates
            yield delayed(work)(i)
    t0 = time.time()
    gen = Parallel(n_jobs=2, backend="threading", return_as="generator", pre_dispatch=2)(producer())
    first = next(gen)
    latency = time.time() - t0
    seen_first.set()
    rest = list(gen)
    print("KF-C16-producer-blocks-delivery:", "REPRODUCED" if latency > 2.0 else "not reproduced",
          "- first result after %.2f s (the task takes microseconds; the producer waited for the consumer)" % latency)

    # KF-C19-stale-memmap-after-inplace-mutation
    try:
        import numpy as np
        from joblib._memmapping_reducer import ArrayMemmapForwardReducer
        import joblib._memmapping_reducer as mr

        class _RT:
            register = staticmethod(lambda n, t_: None)
            maybe_unlink = staticmethod(lambda n, t_: None)
            unregister = staticmethod(lambda n, t_: None)
        mr.resource_tracker = _RT
        folder = os.path.join(root, "pool")
        red = ArrayMemmapForwardReducer(0, lambda: folder, "r", False, prewarm=False)
        a = np.arange(1000, dtype="f8")
        fn, args = red(a)
        v1 = float(np.asarray(fn(*args))[0])
        a[...] = -1.0
        fn, args = red(a)
        v2 = float(np.asarray(fn(*args))[0])
        print("KF-C19-stale-memmap-after-inplace-mutation:", "REPRODUCED" if v2 != -1.0 else "not reproduced",
              "- second reduction of the array changed in place shows %r to the worker (caller holds -1.0)" % v2)
    except ImportError:
        print("KF-C19-stale-memmap-after-inplace-mutation: skipped (numpy not importable; add /verif/.np to PYTHONPATH)")
finally:
    shutil.rmtree(root, ignore_errors=True)
sys.exit(0)
