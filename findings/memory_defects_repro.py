"""Defects 23, 26, 27, 28, 29 (C05/C12/C06/C08/C03) on the real code and the real file system.
Usage: PYTHONPATH=<joblib checkout> python this_file.py     (pinned tree: DEFECT lines, exit 1; repaired tree: OK, exit 0)"""
import io
import os
import shutil
import sys
import tempfile
import textwrap

import joblib
from joblib import Memory

bad = 0
root = tempfile.mkdtemp(prefix="verif_repro_")
try:
    # 27: a parameter named `self` / `func` passed by keyword
    mem = Memory(os.path.join(root, "c27"), verbose=1)

    def apply(func, x):
        return func(x)

    def meth(self, y=2):
        return (self, y)
    sys.stdout = io.StringIO()
    try:
        for f, kw in ((apply, dict(func=len, x=[1, 2])), (meth, dict(self=3))):
            try:
                mem.cache(f)(**kw)
                msg = "27 OK: %s accepted %r" % (f.__name__, sorted(kw))
            except TypeError as e:
                msg = "27 DEFECT: %s(%s): %s" % (f.__name__, ", ".join(sorted(kw)), e)
                bad += 1
            sys.__stdout__.write(msg + "\n")
    finally:
        sys.stdout = sys.__stdout__

    # 26: forced .call() on a cold cache, then a regular call
    mem = Memory(os.path.join(root, "c26"), verbose=0)
    log = []

    def g(a):
        log.append(a)
        return a * 2
    cg = mem.cache(g)
    cg.call(3)
    cg(3)
    if len(log) == 1:
        print("26 OK: the result stored by .call() is served")
    else:
        print("26 DEFECT: the body ran %d times: the forced result was dropped" % len(log))
        bad += 1

    # 23: a wipe after a source change interrupted after func_code.py was removed
    src_dir = os.path.join(root, "src")
    os.makedirs(src_dir)
    sys.path.insert(0, src_dir)

    def run(version, args):
        path = os.path.join(src_dir, "verif_mod23.py")
        with open(path, "w") as f:
            f.write(textwrap.dedent("""
                def f(a):
                    return ('v%d', a)
                """ % version))
        sys.modules.pop("verif_mod23", None)
        import importlib
        importlib.invalidate_caches()
        import verif_mod23
        import joblib.memory as jm
        jm._FUNCTION_HASHES.clear()
        getattr(jm, "_FUNCTION_ID_HASHES", {}).clear()
        cf = Memory(os.path.join(root, "c23"), verbose=0).cache(verif_mod23.f)
        return [cf(a) for a in args]
    run(1, [1, 2, 3])
    func_dir = os.path.join(root, "c23", "joblib", "verif_mod23", "f")
    os.unlink(os.path.join(func_dir, "func_code.py"))        # what an interrupted rmtree can leave behind
    got = run(2, [1, 2, 3])
    if got == [("v2", 1), ("v2", 2), ("v2", 3)]:
        print("23 OK: results without their func_code.py are not served")
    else:
        print("23 DEFECT: new code, old values: %r" % (got,))
        bad += 1

    # 28: NaN / tuples holding frozensets in sets and dict keys
    nan = float("nan")
    d1 = {(1, frozenset({1})): 0, (1, frozenset({2})): 1}
    d2 = {(1, frozenset({2})): 1, (1, frozenset({1})): 0}
    s1, s2 = {nan, 1.0, 2.0, 0.5}, {0.5, 2.0, 1.0, nan}
    if joblib.hash(d1) == joblib.hash(d2) and joblib.hash(s1) == joblib.hash(s2):
        print("28 OK: digests do not depend on the insertion order")
    else:
        print("28 DEFECT: digest depends on the insertion order")
        bad += 1

    # 29: an object that does not start at offset 0 of its buffer
    buf = io.BytesIO()
    buf.write(b"junk")
    joblib.dump({"k": [1, 2, 3]}, buf, compress=("lzma", 1))
    buf.seek(4)
    try:
        back = joblib.load(buf)
        print("29 OK: %r" % (back,) if back == {"k": [1, 2, 3]} else "29 DEFECT: loaded %r" % (back,))
        bad += back != {"k": [1, 2, 3]}
    except Exception as e:
        print("29 DEFECT: %s: %s" % (type(e).__name__, str(e)[:80]))
        bad += 1
finally:
    shutil.rmtree(root, ignore_errors=True)
sys.exit(1 if bad else 0)
