"""Real threads, real joblib, public backend API only.  compute_batch_size() is called by dispatch_one_batch
outside Parallel's lock; here it is slow in the caller thread (it waits for a completion callback to finish), which
is the adversarial-but-legal schedule: the caller's pre-dispatch loop keeps finding look-ahead batches that the
callbacks sliced and dispatches them all."""
import threading, time, sys
from concurrent.futures import ThreadPoolExecutor
from joblib import Parallel, delayed
from joblib._parallel_backends import ParallelBackendBase
taken = [0]; completed = [0]; maxgap = [0]; cb_done = [0]
lock = threading.Lock(); main_ident = threading.get_ident()
class Backend(ParallelBackendBase):
    supports_retrieve_callback = True
    supports_sharedmem = True
    uses_threads = True
    def effective_n_jobs(self, n_jobs): return 4
    def configure(self, n_jobs=1, parallel=None, **kw):
        self.parallel = parallel; self.ex = ThreadPoolExecutor(4); return 4
    def submit(self, func, callback=None):
        fut = self.ex.submit(func)
        def cb(f):
            callback(f); cb_done[0] += 1
        fut.add_done_callback(cb); return fut
    def retrieve_result_callback(self, fut): return fut.result()
    def compute_batch_size(self):
        if threading.get_ident() == main_ident:
            seen = cb_done[0]; t = time.time()
            while cb_done[0] == seen and time.time() - t < 0.05: time.sleep(0.0005)
        return 1
    def terminate(self): self.ex.shutdown()
def fn(i):
    with lock: completed[0] += 1
    return i
def gen(n):
    for i in range(n):
        taken[0] += 1
        g = taken[0] - completed[0]
        if g > maxgap[0]: maxgap[0] = g
        yield delayed(fn)(i)
N = int(sys.argv[1]) if len(sys.argv) > 1 else 300
r = Parallel(n_jobs=4, backend=Backend(nesting_level=0), pre_dispatch=7, batch_size="auto")(gen(N))
bound = 7 + 4 * 1
print("items", N, "max(taken - completed) =", maxgap[0], "; pre_dispatch + n_jobs*batch_size =", bound)
ok = r == list(range(N)) and maxgap[0] <= 3 * bound
print("OK" if ok else "VIOLATION"); sys.exit(0 if ok else 1)
