import threading, time, sys
from concurrent.futures import ThreadPoolExecutor
from joblib import Parallel, delayed
from joblib._parallel_backends import ParallelBackendBase
import joblib.parallel as jp

gate = threading.Event(); held = threading.Event()
hold = {"on": False}
log = []
class MyBackend(ParallelBackendBase):
    supports_retrieve_callback = True
    supports_sharedmem = True
    uses_threads = True
    def effective_n_jobs(self, n_jobs): return 2
    def configure(self, n_jobs=1, parallel=None, **kw):
        self.parallel = parallel
        if not hasattr(self, "ex"): self.ex = ThreadPoolExecutor(2)
        return 2
    def submit(self, func, callback=None):
        fut = self.ex.submit(func); fut.add_done_callback(callback); return fut
    def retrieve_result_callback(self, fut): return fut.result()
    def batch_completed(self, batch_size, duration):
        log.append(("batch_completed", threading.current_thread().name, hold["on"]))
        if hold["on"]:
            hold["on"] = False; held.set()
            gate.wait(10)
            log.append(("released", time.time()))
def task0(i):
    if i == 0:
        time.sleep(0.05); hold["on"] = True
        return "first"
    if i == 1:
        held.wait(5); time.sleep(0.05); raise ValueError("boom")
    time.sleep(0.5); return i
be = MyBackend(nesting_level=0)
p = Parallel(n_jobs=2, backend=be, pre_dispatch=2, batch_size=1)
try:
    p(delayed(task0)(i) for i in range(6)); print("no error?!")
except ValueError as e:
    print("call 0 raised", e, "held:", held.is_set())
def release():
    time.sleep(0.35); gate.set()
threading.Thread(target=release).start()
def t1(i):
    time.sleep(0.3 * (i + 1)); return 100 + i
try:
    r = p(delayed(t1)(i) for i in range(3)); print("call 1 returned", r); ok = r == [100, 101, 102]
except BaseException as e:
    print("call 1 raised", type(e).__name__, e); ok = False
print(log)
print("OK" if ok else "VIOLATION"); sys.exit(0 if ok else 1)
