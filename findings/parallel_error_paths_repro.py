"""Defects 19-21 (C04) on the real code with real threads.  Usage: PYTHONPATH=<joblib checkout> python this_file.py
On the pinned tree (before fix commits 70440f5, 9fdc445, 31f5c8e) the three cases print DEFECT; on the repaired tree OK."""
import sys

from joblib import Parallel, delayed


def ident(i):
    return i


def boom(i):
    if i == 2:
        raise KeyError("task %d" % i)
    return i


def gen_fail(j):
    for i in range(8):
        if i == j:
            raise KeyError("input item %d" % i)
        yield delayed(ident)(i)


class BadIter:
    def __iter__(self):
        raise KeyError("__iter__")


bad = 0
# 19: n_jobs=1, verbose>0, a task fails after an earlier success
try:
    Parallel(n_jobs=1, verbose=1)(delayed(boom)(i) for i in range(4))
    print("19 DEFECT: no exception"); bad += 1
except KeyError:
    print("19 OK: KeyError of the task")
except Exception as e:
    print("19 DEFECT: %r instead of the task's KeyError" % (e,)); bad += 1
# 20: pre_dispatch='all', the input iterator fails
try:
    r = Parallel(n_jobs=2, backend="threading", pre_dispatch="all")(gen_fail(0))
    print("20 DEFECT: returned %r, the iterator's KeyError is lost" % (r,)); bad += 1
except KeyError:
    print("20 OK: KeyError of the input iterator")
# 21: __iter__ raises, then the same instance is used again
p = Parallel(n_jobs=2, backend="threading")
try:
    p(BadIter())
except KeyError:
    pass
try:
    r = p(delayed(ident)(i) for i in range(3))
    print("21 OK: second call returned %r" % (r,))
except RuntimeError as e:
    print("21 DEFECT: second call raised %r" % (e,)); bad += 1
sys.exit(1 if bad else 0)
