"""Two live definitions of one name (as after re-running a notebook cell while an older reference is kept).
Before the fix the newer definition returned a value computed by the older one."""
import sys, tempfile, os, linecache
from joblib import Memory
d = tempfile.mkdtemp()
def define(tag, unit):
    src = "def f(a):\n    return (%r, a)\n" % tag
    path = os.path.join(d, unit + ".py")
    open(path, "w").write(src)
    ns = {"__name__": "demo_mod"}
    exec(compile(src, path, "exec"), ns)
    return ns["f"]
mem = Memory(os.path.join(d, "cache"), verbose=0)
old, new = define("old", "cell1"), define("new", "cell2")
g_old, g_new = mem.cache(old), mem.cache(new)
import warnings; warnings.simplefilter("ignore")
r = [g_new(0), g_old(1), g_new(1)]
print(r)
ok = r == [("new", 0), ("old", 1), ("new", 1)]
print("OK" if ok else "VIOLATION"); sys.exit(0 if ok else 1)
