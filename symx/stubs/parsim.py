"""parsim - deterministic two-thread simulation of joblib.Parallel's concurrency.

Real Parallel has two control flows touching its state: the caller thread (dispatching, retrieving) and the
backend's callback thread (multiprocessing's result handler / loky's executor manager), which runs the
BatchCompletionCallBack of every finished batch, one at a time.  parsim runs both as real OS threads under a
baton: exactly one runs at any time, and control changes hands only at *switch points* -

   * SimLock acquire (before) / release (after)       - Parallel._lock is replaced by a SimLock
   * every call into the harness-provided environment: clock (time / sleep), backend / pool entry points
     (submit, apply_async, batch_completed, compute_batch_size, ...), next() on the input iterator,
     the start of a task body.

A *schedule* is (a) the switch-point indices at which the running thread is pre-empted although it could go on
(bounded: K pre-emptions), and (b) the picks made when the callback thread is free and several submitted batches
could complete next (arbitrary completion order = arbitrary task durations).  Both are plain integers, which is
what the solver enumerates.  Blocking hand-overs (lock held by the other thread, caller sleeping in _retrieve,
callback thread out of work) are not choices.

Hang detection: the caller sleeps while nothing can ever complete, or the step budget is exhausted.
"""
import threading

MAX_STEPS = 6000


class SimHang(Exception):
    pass


class SimStop(BaseException):
    """Raised inside the callback thread to unwind it at the end of a run."""


class _Th:
    def __init__(self, name):
        self.name = name
        self.ev = threading.Event()


class Sim:
    def __init__(self, preempt=(), picks=(), stuck=()):
        self.preempt = {int(p): int(a) for p, a in preempt}     # switch-point index -> (unused alt)
        self.picks = list(picks)
        self.pick_i = 0
        self.stuck = set(stuck)          # submission indices of batches that never complete
        self.stuck_tags = set()          # ... or harness-level tags (e.g. (call, first task index)) of such batches
        self.tag_fn = None
        self.main = _Th("main")
        self.cb = _Th("cb")
        self.current = self.main
        self.cb_thread = None
        self.main_thread_obj = threading.current_thread()
        self.cb_busy = False             # a completion (task run + callback) is in progress
        self.pending = []                # submitted, not yet completed: (seq, runner)
        self.n_submitted = 0
        self.steps = 0
        self.sp_tags = []
        self.stopping = False
        self.cb_errors = []
        self.clock = 0.0
        self.lock_owner = None
        self.lock_count = 0
        self.idle_sleeps = 0
        self.events = []                 # observable log for oracles
        self.max_pending = 0
        self.on_switch_point = None      # optional invariant hook(sim, tag)
        self.submit_meta = {}            # seq -> harness-defined tag captured at submission time
        self.meta_fn = None
        self.running_seq = None
        self.n_completed_batches = 0
        self.n_tasks_finished = 0        # batches whose task body has finished (their worker is free again)

    # ------------------------------------------------------------------ scheduling core
    def _cb_can_run(self):
        if self.stopping:
            return False
        if self.cb_busy:
            return not (self.cb_blocked_on_lock())
        return any(not self._is_stuck(seq, r) for seq, r in self.pending)

    def _is_stuck(self, seq, runner):
        return seq in self.stuck or (self.stuck_tags and getattr(runner, "tag", None) in self.stuck_tags)

    def cb_blocked_on_lock(self):
        return getattr(self, "_cb_waiting_lock", False) and self.lock_owner is self.main

    def _main_can_run(self):
        return not (getattr(self, "_main_waiting_lock", False) and self.lock_owner is self.cb) and \
            not getattr(self, "_main_done", False)

    def _ensure_cb_thread(self):
        if self.cb_thread is None:
            self.cb_thread = threading.Thread(target=self._cb_loop, name="parsim-cb", daemon=True)
            self.cb_thread.start()

    def _handover(self, target):
        me = self.current
        if target is me:
            return
        if target is self.cb:
            self._ensure_cb_thread()
        self.current = target
        target.ev.set()
        me.ev.wait()
        me.ev.clear()
        if me is self.cb and self.stopping:
            raise SimStop()

    def _other(self):
        return self.cb if self.current is self.main else self.main

    def sp(self, tag):
        """A switch point of the running thread."""
        if self.stopping:
            return
        i = self.steps
        self.steps += 1
        if len(self.sp_tags) < 400:
            self.sp_tags.append((self.current.name, tag))
        if self.steps > MAX_STEPS:
            raise SimHang("step budget exhausted (%d switch points)" % MAX_STEPS)
        if self.on_switch_point is not None:
            self.on_switch_point(self, tag)
        if i in self.preempt:
            other = self._other()
            can = self._cb_can_run() if other is self.cb else self._main_can_run()
            if can:
                self._handover(other)

    def _pick(self, n):
        c = self.picks[self.pick_i] if self.pick_i < len(self.picks) else 0
        self.pick_i += 1
        return c % n

    # ------------------------------------------------------------------ the callback thread
    def _cb_loop(self):
        self.cb.ev.wait()
        self.cb.ev.clear()
        try:
            while not self.stopping:
                cands = [k for k, (seq, r) in enumerate(self.pending) if not self._is_stuck(seq, r)]
                if cands:
                    k = cands[self._pick(len(cands))]
                    seq, runner = self.pending.pop(k)
                    self.cb_busy = True
                    try:
                        self.events.append(("complete", seq))
                        self.running_seq = seq
                        self.n_started = getattr(self, "n_started", 0) + 1
                        runner()
                    except SimStop:
                        raise
                    except BaseException as e:      # a callback that raises kills the real handler thread
                        self.cb_errors.append("%s: %s" % (type(e).__name__, e))
                    finally:
                        self.cb_busy = False
                        self.n_completed_batches += 1
                    self.sp("cb-done")
                    # a completion takes time: the caller, if it can run, gets the processor back before the
                    # next completion starts (two completions back to back cost the caller one pre-emption)
                    if self._main_can_run() and not self.stopping:
                        self._handover(self.main)
                    continue
                # nothing to do: give the baton back (a blocking hand-over, not a choice)
                self._handover(self.main)
        except SimStop:
            pass
        finally:
            self.cb_busy = False
            self.current = self.main
            self.main.ev.set()

    # ------------------------------------------------------------------ lock (RLock semantics)
    def lock_acquire(self):
        me = self.current
        self.sp("acq")
        me = self.current
        while self.lock_owner is not None and self.lock_owner is not me:
            if self.stopping:
                return
            flag = "_cb_waiting_lock" if me is self.cb else "_main_waiting_lock"
            setattr(self, flag, True)
            try:
                other = self._other()
                can = self._cb_can_run() if other is self.cb else self._main_can_run()
                if not can:
                    raise SimHang("deadlock: %s waits for the lock held by %s, which cannot run" % (me.name, other.name))
                self._handover(other)
            finally:
                setattr(self, flag, False)
        self.lock_owner = me
        self.lock_count += 1

    def lock_release(self):
        self.lock_count -= 1
        if self.lock_count == 0:
            self.lock_owner = None
            self.sp("rel")

    # ------------------------------------------------------------------ clock
    def time(self):
        self.sp("time")
        self.clock += 0.001
        return self.clock

    def sleep(self, d):
        """The caller waits (Parallel._retrieve): the other thread must get a chance."""
        self.clock += d
        if self.current is self.main:
            if self._cb_can_run():
                self.idle_sleeps = 0
                self._handover(self.cb)
            else:
                self.idle_sleeps += 1
                self.steps += 1
                if self.steps > MAX_STEPS:
                    raise SimHang("the caller keeps sleeping while nothing can complete")
        else:
            self.sp("cb-sleep")

    def other_thread_wait(self, cond, limit=200):
        """A non-caller thread blocks until cond() (e.g. a slow input producer consumed from a callback): the caller
        runs meanwhile; gives up when the caller cannot run (it may itself be waiting for this thread)."""
        n = 0
        while not cond() and not self.stopping and n < limit:
            if self.current is self.main or not self._main_can_run():
                return
            self._handover(self.main)
            n += 1

    def wait_for(self, cond, what):
        """Caller blocks until cond() (legacy backends: retrieve_result)."""
        while not cond():
            if not self._cb_can_run():
                raise SimHang("caller blocks on %s but nothing can complete" % what)
            self._handover(self.cb)

    # ------------------------------------------------------------------ submission / end of run
    def submit(self, runner, tag=None):
        runner.tag = self.tag_fn(tag) if (self.tag_fn is not None and tag is not None) else None
        self.sp("submit")
        seq = self.n_submitted
        self.n_submitted += 1
        runner.seq = seq
        self.submit_meta[seq] = self.meta_fn() if self.meta_fn else None
        self.pending.append((seq, runner))
        self.events.append(("submit", seq))
        self.max_pending = max(self.max_pending, len(self.pending))
        self.sp("submitted")
        return seq

    def drop_pending(self):
        """Pool terminated: queued work is discarded (a completion already in progress goes on)."""
        self.events.append(("drop", [s for s, _ in self.pending]))
        self.n_dropped = getattr(self, "n_dropped", 0) + len(self.pending)
        del self.pending[:]

    def join_callback_thread(self):
        """Pool.terminate() / executor.shutdown(wait=True) join the handler / manager thread: a completion that
        is in progress finishes before terminate returns (multiprocessing.pool._terminate_pool,
        loky _ReusablePoolExecutor.shutdown)."""
        if self.current is not self.main:
            return
        n = 0
        while self.cb_busy and not self.stopping:
            if self.cb_blocked_on_lock():
                raise SimHang("terminate() joins the callback thread, which waits for the lock held by the caller")
            self._handover(self.cb)
            n += 1
            if n > 200:
                raise SimHang("callback thread does not finish")

    def drain(self, limit=50):
        """Let the callback thread finish whatever is in progress / completable (used before final checks)."""
        n = 0
        while self._cb_can_run() and n < limit:
            self._handover(self.cb)
            n += 1

    def shutdown(self):
        self.stopping = True
        self._main_done = True
        if self.cb_thread is not None and self.cb_thread.is_alive():
            self.current = self.cb
            self.cb.ev.set()
            self.main.ev.wait(5)
            self.main.ev.clear()
            self.cb_thread.join(5)


class SimLock:
    """Drop-in for Parallel._lock (threading.RLock)."""

    def __init__(self, sim):
        self.sim = sim

    def __enter__(self):
        self.sim.lock_acquire()
        return self

    def __exit__(self, *a):
        self.sim.lock_release()
        return False

    acquire = __enter__

    def release(self):
        self.sim.lock_release()


class SimTime:
    def __init__(self, sim, real):
        self.sim = sim
        self._real = real

    def time(self):
        return self.sim.time()

    def sleep(self, d):
        return self.sim.sleep(d)

    def __getattr__(self, name):
        return getattr(self._real, name)


# ---------------------------------------------------------------------- pools / executors
class _AsyncResult:
    def __init__(self, sim):
        self.sim = sim
        self.done = False
        self.value = None
        self.exc = None

    def get(self, timeout=None):
        self.sim.wait_for(lambda: self.done, "AsyncResult.get")
        if self.exc is not None:
            raise self.exc
        return self.value


class SimPool:
    """multiprocessing.pool.(Thread)Pool stand-in: apply_async + callbacks on the single handler thread."""

    def __init__(self, sim, processes=None, *a, **k):
        self.sim = sim
        self.processes = processes
        self.closed = False
        self.sim.events.append(("pool", processes))
        self._temp_folder_manager = None

    def apply_async(self, func, args=(), kwds=None, callback=None, error_callback=None):
        if self.closed:
            raise ValueError("Pool not running")
        res = _AsyncResult(self.sim)

        def runner():
            try:
                self.sim.sp("task")
                out = func(*args, **(kwds or {}))
            except BaseException as e:
                self.sim.n_tasks_finished += 1
                res.exc = e
                res.done = True
                if error_callback is not None:
                    error_callback(e)
                return
            self.sim.n_tasks_finished += 1
            res.value = out
            res.done = True
            if callback is not None:
                callback(out)
        self.sim.submit(runner, tag=func)
        return res

    def close(self):
        self.closed = True

    def terminate(self):
        self.closed = True
        self.sim.sp("terminate")
        self.sim.drop_pending()
        self.sim.join_callback_thread()

    def join(self):
        pass


class _TempFolderManager:
    def __init__(self):
        self.contexts = []
        self.cleaned = []

    def set_current_context(self, ctx):
        self.contexts.append(ctx)

    def _clean_temporary_resources(self, context_id=None, force=False, allow_non_empty=False):
        self.cleaned.append((context_id, force))

    def _unlink_temporary_resources(self, context_id=None):
        self.cleaned.append((context_id, "unlink"))


class SimExecutor:
    """loky reusable executor stand-in: submit() -> concurrent.futures.Future, done-callbacks on the manager
    thread; optional fault: a chosen submission 'kills its worker' (TerminatedWorkerError on every pending
    future, executor flagged broken)."""

    def __init__(self, sim, max_workers, kill_at=None, **k):
        import concurrent.futures as cf
        self.sim = sim
        self.cf = cf
        self.max_workers = max_workers
        self._temp_folder_manager = _TempFolderManager()
        self.broken = False
        self.shutdown_called = False
        self.kill_at = kill_at
        self.futures = {}
        self.sim.events.append(("executor", max_workers))

    def submit(self, func, *args, **kwargs):
        from joblib.externals.loky.process_executor import TerminatedWorkerError, ShutdownExecutorError
        if self.broken:
            raise TerminatedWorkerError("A worker process managed by the executor was unexpectedly terminated.")
        if self.shutdown_called:
            raise ShutdownExecutorError("cannot schedule new futures after shutdown")
        fut = self.cf.Future()
        fut.set_running_or_notify_cancel()
        def runner():
            seq = runner.seq
            if self.kill_at is not None and seq == self.kill_at:
                # the worker running this batch dies: loky flags the executor broken and fails *all*
                # pending futures with TerminatedWorkerError (terminate_broken)
                self.broken = True
                self.sim.events.append(("worker-died", seq))
                self.sim.n_tasks_finished += 1
                victims = [fut] + [f for s, f in list(self.futures.items()) if not f.done() and f is not fut]
                self.sim.drop_pending()
                for f in victims:
                    if not f.done():
                        f.set_exception(TerminatedWorkerError(
                            "A worker process managed by the executor was unexpectedly terminated."))
                return
            try:
                self.sim.sp("task")
                out = func(*args, **kwargs)
            except BaseException as e:
                self.sim.n_tasks_finished += 1
                fut.set_exception(e)
                return
            self.sim.n_tasks_finished += 1
            fut.set_result(out)
        seq = self.sim.submit(runner, tag=func)
        self.futures[seq] = fut
        return fut

    def terminate(self, kill_workers=False):
        self.shutdown_called = True
        self.sim.sp("terminate")
        self.sim.drop_pending()
        self.sim.join_callback_thread()

    def shutdown(self, wait=True, kill_workers=False):
        self.terminate(kill_workers)


# ---------------------------------------------------------------------- statement-level switch points
CURRENT = [None]        # the simulation statement probes report to


def stmt_probe(tag):
    sim = CURRENT[0]
    if sim is not None and not sim.stopping and threading.current_thread() in (sim.cb_thread, sim.main_thread_obj):
        sim.sp(tag)


def instrumented_parallel_module(methods=None):
    """Recompile /repo's joblib/parallel.py *from its current source* with a switch point before every statement of
    the Parallel / BatchCompletionCallBack methods that touch shared state.  Returns a module object; the caller swaps
    it in for joblib.parallel for the duration of a run.  Bytecode-level switches stay outside (CPython switches
    threads between bytecodes, but every shared-state access of these methods is a statement of its own)."""
    import ast
    import sys
    import types
    import joblib.parallel as real
    methods = methods or {"__call__", "_get_outputs", "_start", "dispatch_one_batch", "_dispatch", "_register_new_job",
                          "dispatch_next", "_retrieve", "_wait_retrieval", "_raise_error_fast", "_abort",
                          "_terminate_and_reset", "_reset_run_tracking", "_dispatch_new", "_retrieve_result",
                          "_register_outcome", "get_result", "get_status", "_return_or_raise", "__exit__"}
    src = open(real.__file__).read()
    tree = ast.parse(src)

    class Ins(ast.NodeTransformer):
        def __init__(self):
            self.active = False

        def visit_FunctionDef(self, node):
            was = self.active
            self.active = node.name in methods
            node = self.generic_visit(node)
            if self.active:
                node.body = self._weave(node.body)
            self.active = was
            return node

        def _weave(self, body):
            out = []
            for st in body:
                if not (isinstance(st, ast.Expr) and isinstance(st.value, ast.Constant) and isinstance(st.value.value, str)):
                    probe = ast.Expr(ast.Call(ast.Name("__parsim_probe__", ast.Load()),
                                              [ast.Constant("L%d" % st.lineno)], []))
                    out.append(ast.copy_location(probe, st))
                for field in ("body", "orelse", "finalbody"):
                    sub = getattr(st, field, None)
                    if isinstance(sub, list) and sub and isinstance(sub[0], ast.stmt) and not isinstance(st, (ast.FunctionDef, ast.ClassDef)):
                        setattr(st, field, self._weave(sub))
                if isinstance(st, ast.Try):
                    for h in st.handlers:
                        h.body = self._weave(h.body)
                out.append(st)
            return out
    tree = Ins().visit(tree)
    ast.fix_missing_locations(tree)
    mod = types.ModuleType("joblib.parallel")
    mod.__file__ = real.__file__
    mod.__package__ = "joblib"
    mod.__dict__["__parsim_probe__"] = stmt_probe
    code = compile(tree, real.__file__, "exec")
    saved = sys.modules["joblib.parallel"]
    sys.modules["joblib.parallel"] = mod
    try:
        exec(code, mod.__dict__)
    finally:
        sys.modules["joblib.parallel"] = saved
    # share the thread-local configuration store and the backend registry with the real module
    mod._backend = real._backend
    mod.BACKENDS = real.BACKENDS
    return mod


# ---------------------------------------------------------------------- several callback threads
class MultiSim(Sim):
    """Generalisation for backends whose completion callbacks may run concurrently (e.g. a custom backend built on
    concurrent.futures: done-callbacks run in whichever worker thread finished the task).  n_cb callback threads;
    still exactly one thread runs at any time.  Thread choices, where more than one callback thread could go on,
    consume entries of `picks` like completion choices do.  With n_cb == 1 it schedules exactly like Sim."""

    def __init__(self, n_cb=2, **kw):
        super().__init__(**kw)
        self.cbs = [_Th("cb%d" % i) for i in range(n_cb)]
        for t in self.cbs + [self.main]:
            t.busy = False
            t.thread = None
            t.waiting_lock = False
        self.cb = self.cbs[0]
        self._done = False

    # cb_busy is derived
    def _get_busy(self):
        return any(c.busy for c in getattr(self, "cbs", []))

    def _set_busy(self, v):
        pass
    cb_busy = property(_get_busy, _set_busy)

    def _completable(self):
        return any(not self._is_stuck(seq, r) for seq, r in self.pending)

    def _th_can_run(self, t):
        if t is self.main:
            return not self._done and not (t.waiting_lock and self.lock_owner not in (None, t))
        if self.stopping:
            return False
        if t.busy:
            return not (t.waiting_lock and self.lock_owner not in (None, t))
        first_idle = next((c for c in self.cbs if not c.busy), None)
        return t is first_idle and self._completable()

    def _cb_can_run(self):
        return any(self._th_can_run(c) for c in self.cbs)

    def cb_blocked_on_lock(self):
        busy = [c for c in self.cbs if c.busy]
        return bool(busy) and all(c.waiting_lock and self.lock_owner is self.main for c in busy)

    def _main_can_run(self):
        return self._th_can_run(self.main)

    def _runnable_cbs(self):
        return [c for c in self.cbs if self._th_can_run(c)]

    def _ensure_thread(self, t):
        if t is not self.main and t.thread is None:
            t.thread = threading.Thread(target=self._loop, args=(t,), name="parsim-" + t.name, daemon=True)
            t.thread.start()
            self.cb_thread = self.cbs[0].thread

    def _handover(self, target):
        me = self.current
        if target is me:
            return
        self._ensure_thread(target)
        self.current = target
        target.ev.set()
        me.ev.wait()
        me.ev.clear()
        if me is not self.main and self.stopping:
            raise SimStop()

    def _choose_from(self, cands):
        if not cands:
            return None
        if len(cands) == 1:
            return cands[0]
        return cands[self._pick(len(cands))]

    def _next_after(self, me):
        """Who runs when `me` is pre-empted or has to wait."""
        if me is self.main:
            return self._choose_from(self._runnable_cbs())
        if self._main_can_run():
            return self.main
        return self._choose_from([c for c in self._runnable_cbs() if c is not me])

    def sp(self, tag):
        if self.stopping:
            return
        i = self.steps
        self.steps += 1
        if len(self.sp_tags) < 400:
            self.sp_tags.append((self.current.name, tag))
        if self.steps > MAX_STEPS:
            raise SimHang("step budget exhausted (%d switch points)" % MAX_STEPS)
        if self.on_switch_point is not None:
            self.on_switch_point(self, tag)
        if i in self.preempt:
            nxt = self._next_after(self.current)
            if nxt is not None:
                self._handover(nxt)

    def _loop(self, t):
        t.ev.wait()
        t.ev.clear()
        try:
            while not self.stopping:
                cands = [k for k, (seq, r) in enumerate(self.pending) if not self._is_stuck(seq, r)]
                if cands and self._th_can_run(t):
                    k = cands[self._pick(len(cands))]
                    seq, runner = self.pending.pop(k)
                    t.busy = True
                    try:
                        self.events.append(("complete", seq))
                        self.running_seq = seq
                        self.n_started = getattr(self, "n_started", 0) + 1
                        runner()
                    except SimStop:
                        raise
                    except BaseException as e:
                        self.cb_errors.append("%s: %s" % (type(e).__name__, e))
                    finally:
                        t.busy = False
                        self.n_completed_batches += 1
                    self.sp("cb-done")
                nxt = self._next_after(t)
                if nxt is None:
                    if self._th_can_run(t):
                        continue
                    nxt = self.main          # nobody can run: the caller notices (hang detection)
                if not self.stopping:
                    self._handover(nxt)
        except SimStop:
            pass
        finally:
            t.busy = False
            self.current = self.main
            self.main.ev.set()

    def lock_acquire(self):
        self.sp("acq")
        me = self.current
        while self.lock_owner is not None and self.lock_owner is not me:
            if self.stopping:
                return
            me.waiting_lock = True
            try:
                owner = self.lock_owner
                if not self._th_can_run(owner):
                    raise SimHang("deadlock: %s waits for the lock held by %s, which cannot run" % (me.name, owner.name))
                self._handover(owner)
            finally:
                me.waiting_lock = False
        self.lock_owner = me
        self.lock_count += 1

    def sleep(self, d):
        self.clock += d
        if self.current is self.main:
            nxt = self._next_after(self.main)
            if nxt is not None:
                self.idle_sleeps = 0
                self._handover(nxt)
            else:
                self.idle_sleeps += 1
                self.steps += 1
                if self.steps > MAX_STEPS:
                    raise SimHang("the caller keeps sleeping while nothing can complete")
        else:
            self.sp("cb-sleep")

    def wait_for(self, cond, what):
        while not cond():
            nxt = self._next_after(self.main)
            if nxt is None:
                raise SimHang("caller blocks on %s but nothing can complete" % what)
            self._handover(nxt)

    def join_callback_thread(self):
        if self.current is not self.main:
            return
        n = 0
        while self.cb_busy and not self.stopping:
            nxt = self._choose_from([c for c in self.cbs if c.busy and self._th_can_run(c)])
            if nxt is None:
                raise SimHang("terminate() joins callback threads that wait for the lock held by the caller")
            self._handover(nxt)
            n += 1
            if n > 400:
                raise SimHang("callback threads do not finish")

    def drain(self, limit=80):
        n = 0
        while n < limit:
            nxt = self._next_after(self.main)
            if nxt is None:
                break
            self._handover(nxt)
            n += 1

    def shutdown(self):
        self.stopping = True
        self._done = True
        for t in self.cbs:
            if t.thread is not None and t.thread.is_alive():
                self.current = t
                t.ev.set()
                self.main.ev.wait(5)
                self.main.ev.clear()
                t.thread.join(5)
