"""In-memory file-system model with a /vfs prefix dispatch on os.* / open / shutil.rmtree.

Everything joblib's store back-end does under the cache directory lands here: CrossHair's audit wall forbids
real writes, and the model gives us what a real disk cannot: a recorded mutation trace (crash points, torn
writes), an event hook before *every* primitive (interference injection) and settable access times.

Fidelity notes (validated against a real temp directory by `selfcheck()` on every run):
  * shutil.rmtree is a non-atomic sequence of unlink / rmdir events (what other processes can observe);
  * os.walk swallows listing errors of directories that vanish during the walk (as the real one does);
  * open(..., 'w'/'wb') is create-or-truncate followed by in-place writes, each an event, then close;
  * rename/replace is atomic and replaces an existing destination file.
"""
import builtins
import contextlib
import errno
import io
import os
import posixpath
import shutil
import stat as statmod
import tokenize

PREFIX = "/vfs"


def mine(p):
    try:
        p = os.fspath(p)
    except TypeError:
        return False
    return isinstance(p, str) and (p == PREFIX or p.startswith(PREFIX + "/"))


class StatResult:
    def __init__(self, mode, size, atime):
        self.st_mode = mode
        self.st_size = size
        self.st_atime = atime
        self.st_mtime = atime
        self.st_ctime = atime
        self.st_blocks = (size + 511) // 512
        self.st_dev = 1
        self.st_ino = 1
        self.st_nlink = 1


def _enoent(p):
    return FileNotFoundError(errno.ENOENT, "No such file or directory", p)


class FS:
    def __init__(self):
        self.dirs = {PREFIX}
        self.files = {}          # path -> bytes
        self.atime = {}          # path -> number (settable by harnesses)
        self.clock = 0
        self.trace = []          # mutation events only
        self.events = 0          # all primitives, reads included
        self.hook = None         # called as hook(fs, kind, args) before every primitive
        self.open_for_write = set()
        self.renamed_from_open = []   # protocol violations: rename of a file still open for writing
        self.in_hook = False
        self.reverse_listing = False  # directory listing order is unspecified on a real FS: both orders are modelled

    # ------------------------------------------------------------------ plumbing
    def _ev(self, kind, *args):
        """Called at the start of every primitive."""
        self.events += 1
        if self.hook is not None and not self.in_hook:
            self.in_hook = True
            try:
                self.hook(self, kind, args)
            finally:
                self.in_hook = False

    def _mut(self, *op):
        self.trace.append(op)

    def _tick(self):
        self.clock += 1
        return self.clock

    @staticmethod
    def _n(p):
        return posixpath.normpath(os.fspath(p))

    # ------------------------------------------------------------------ primitives
    def stat(self, p, *a, **k):
        p = self._n(p)
        self._ev("stat", p)
        if p in self.dirs:
            return StatResult(statmod.S_IFDIR | 0o755, 0, self.atime.get(p, 0))
        if p in self.files:
            return StatResult(statmod.S_IFREG | 0o644, len(self.files[p]), self.atime.get(p, 0))
        raise _enoent(p)

    def mkdir(self, p, mode=0o777, **k):
        p = self._n(p)
        self._ev("mkdir", p)
        if p in self.dirs or p in self.files:
            raise FileExistsError(errno.EEXIST, "File exists", p)
        if posixpath.dirname(p) not in self.dirs:
            raise _enoent(p)
        self.dirs.add(p)
        self._mut("mkdir", p)

    def _children(self, p):
        pre = p + "/"
        return sorted({q[len(pre):].split("/")[0] for q in list(self.dirs) + list(self.files) if q.startswith(pre)},
                      reverse=self.reverse_listing)

    def listdir(self, p="."):
        p = self._n(p)
        self._ev("listdir", p)
        if p not in self.dirs:
            if p in self.files:
                raise NotADirectoryError(errno.ENOTDIR, "Not a directory", p)
            raise _enoent(p)
        return self._children(p)

    def replace(self, a, b, **k):
        a, b = self._n(a), self._n(b)
        self._ev("rename", a, b)
        if a not in self.files:
            if a in self.dirs:
                raise OSError(errno.ENOTSUP, "directory rename not modelled", a)
            raise _enoent(a)
        if posixpath.dirname(b) not in self.dirs:
            raise _enoent(b)
        if b in self.dirs:
            raise IsADirectoryError(errno.EISDIR, "Is a directory", b)
        if a in self.open_for_write:
            self.renamed_from_open.append((a, b))
        self.files[b] = self.files.pop(a)
        self.atime[b] = self._tick()
        self.atime.pop(a, None)
        self._mut("rename", a, b)

    def unlink(self, p, **k):
        p = self._n(p)
        self._ev("unlink", p)
        if p not in self.files:
            if p in self.dirs:
                raise IsADirectoryError(errno.EISDIR, "Is a directory", p)
            raise _enoent(p)
        del self.files[p]
        self.atime.pop(p, None)
        self._mut("unlink", p)

    def rmdir(self, p, **k):
        p = self._n(p)
        self._ev("rmdir", p)
        if p not in self.dirs:
            raise _enoent(p)
        if self._children(p):
            raise OSError(errno.ENOTEMPTY, "Directory not empty", p)
        self.dirs.discard(p)
        self._mut("rmdir", p)

    def rmtree(self, p, ignore_errors=False, onerror=None, **k):
        """shutil.rmtree as the sequence of listdir/unlink/rmdir primitives other processes can interleave with."""
        p = self._n(p)

        def handle(func, path, exc):
            if ignore_errors:
                return
            if onerror is not None:
                onerror(func, path, (type(exc), exc, exc.__traceback__))
                return
            raise exc

        try:
            names = self.listdir(p)
        except OSError as e:
            handle(os.listdir, p, e)
            return
        for name in names:
            q = p + "/" + name
            if q in self.dirs:
                self.rmtree(q, ignore_errors, onerror)
            else:
                try:
                    self.unlink(q)
                except OSError as e:
                    handle(os.unlink, q, e)
        try:
            self.rmdir(p)
        except OSError as e:
            handle(os.rmdir, p, e)

    def walk(self, top, topdown=True, onerror=None, followlinks=False):
        top = self._n(top)
        try:
            names = self.listdir(top)
        except OSError as e:
            if onerror is not None:
                onerror(e)
            return
        ds = [n for n in names if top + "/" + n in self.dirs]
        fs = [n for n in names if top + "/" + n in self.files]
        yield top, ds, fs
        for d in ds:
            yield from self.walk(top + "/" + d, topdown, onerror, followlinks)

    def utime(self, p, times=None, **k):
        p = self._n(p)
        self._ev("utime", p)
        if p not in self.files and p not in self.dirs:
            raise _enoent(p)
        self.atime[p] = times[0] if times else self._tick()

    def open(self, path, mode="r", *a, **k):
        path = self._n(path)
        if "w" in mode or "a" in mode or "x" in mode or "+" in mode:
            self._ev("create", path)
            if posixpath.dirname(path) not in self.dirs:
                raise _enoent(path)
            if path in self.dirs:
                raise IsADirectoryError(errno.EISDIR, "Is a directory", path)
            w = WFile(self, path, append="a" in mode)
            if "b" in mode:
                return w
            return io.TextIOWrapper(w, encoding=k.get("encoding") or "utf-8", write_through=True)
        self._ev("open", path)
        if path in self.dirs:
            raise IsADirectoryError(errno.EISDIR, "Is a directory", path)
        if path not in self.files:
            raise _enoent(path)
        self.atime[path] = self._tick()
        if getattr(self, "raw_reads", False) and "b" in mode:
            # what the builtin open() returns for 'rb': a BufferedReader over a raw file (needed where joblib
            # distinguishes real files from in-memory buffers, i.e. for mmap_mode)
            return io.BufferedReader(FakeRaw(self.files[path], path))
        b = RFile(self.files[path])
        b.name = path
        if "b" in mode:
            return b
        return io.TextIOWrapper(b, encoding=k.get("encoding") or "utf-8")

    # ------------------------------------------------------------------ snapshots / crash states
    def snapshot(self):
        return (set(self.dirs), dict(self.files), dict(self.atime), self.clock)

    def restore(self, snap):
        self.dirs, self.files, self.atime, self.clock = set(snap[0]), dict(snap[1]), dict(snap[2]), snap[3]
        self.open_for_write = set()

    def apply(self, op, torn=None):
        """Replay one recorded mutation (crash-state builder).  `torn`: keep only that many bytes of a write."""
        kind = op[0]
        if kind == "mkdir":
            self.dirs.add(op[1])
        elif kind == "create":
            self.files[op[1]] = b""
        elif kind == "write":
            data = op[2] if torn is None else op[2][:torn]
            self.files[op[1]] = self.files.get(op[1], b"") + data
        elif kind == "close":
            pass
        elif kind == "rename":
            self.files[op[2]] = self.files.pop(op[1])
        elif kind == "unlink":
            self.files.pop(op[1], None)
        elif kind == "rmdir":
            self.dirs.discard(op[1])
        else:
            raise AssertionError(op)

    def tree(self):
        return {"dirs": sorted(self.dirs), "files": {k: len(v) for k, v in sorted(self.files.items())}}


class RFile(io.BytesIO):
    pass


class FakeRaw(io.RawIOBase):
    """Stand-in for io.FileIO opened for reading on a model file."""

    def __init__(self, data, name):
        super().__init__()
        self._b = io.BytesIO(data)
        self.name = name

    def readable(self):
        return True

    def seekable(self):
        return True

    def readinto(self, b):
        return self._b.readinto(b)

    def seek(self, pos, whence=0):
        return self._b.seek(pos, whence)

    def tell(self):
        return self._b.tell()


class WFile(io.BytesIO):
    """A file open for writing: create/truncate, then every write lands in place immediately."""

    def __init__(self, fs, path, append=False):
        super().__init__()
        self.fs = fs
        self.path = path
        self.name = path
        if not append or path not in fs.files:
            fs.files[path] = b""
            fs._mut("create", path)
        self._base = fs.files[path]
        fs.atime[path] = fs._tick()
        fs.open_for_write.add(path)

    def write(self, b):
        b = bytes(b)
        self.fs._ev("write", self.path, len(b))
        n = super().write(b)
        # the file may have been unlinked/renamed away by interference: POSIX keeps writing to the inode,
        # the *name* does not come back
        if self.path in self.fs.files:
            self.fs.files[self.path] = self._base + self.getvalue()
        self.fs._mut("write", self.path, b)
        return n

    def close(self):
        if not self.closed:
            self.fs.open_for_write.discard(self.path)
            self.fs._mut("close", self.path)
        super().close()


@contextlib.contextmanager
def installed(fs):
    """Route every os/open/shutil primitive on a /vfs path to `fs`; everything else to the real thing."""
    import joblib._store_backends as sb
    import joblib.backports as bp
    real = {}

    def patch(obj, name, fake_fn, pathargs=1):
        orig = getattr(obj, name)
        real[(obj, name)] = orig

        def disp(*a, **k):
            if a and any(mine(x) for x in a[:pathargs]):
                return fake_fn(*a, **k)
            return orig(*a, **k)
        disp.__name__ = name
        disp.__wrapped_real__ = orig
        setattr(obj, name, disp)

    for name, fn, n in [("stat", fs.stat, 1), ("lstat", fs.stat, 1), ("mkdir", fs.mkdir, 1),
                        ("listdir", fs.listdir, 1), ("replace", fs.replace, 2), ("rename", fs.replace, 2),
                        ("unlink", fs.unlink, 1), ("remove", fs.unlink, 1), ("rmdir", fs.rmdir, 1),
                        ("walk", fs.walk, 1), ("utime", fs.utime, 1)]:
        patch(os, name, fn, n)
    def _chmod(path, mode, *a, **k):
        fs.stat(path)                  # permissions are not modelled: only the existence check of chmod remains
    patch(os, "chmod", _chmod)
    patch(shutil, "rmtree", fs.rmtree)
    patch(builtins, "open", fs.open)
    patch(io, "open", fs.open)
    patch(tokenize, "_builtin_open", fs.open)
    import bz2
    import lzma
    import gzip
    for m in (bz2, lzma):
        if hasattr(m, "_builtin_open"):
            patch(m, "_builtin_open", fs.open)
    extra = [(sb.FileSystemStoreBackend, "_open_item", staticmethod(builtins.open)),
             (sb.FileSystemStoreBackend, "_move_item", staticmethod(os.replace)),
             (sb, "concurrency_safe_rename", os.replace), (bp, "concurrency_safe_rename", os.replace)]
    saved = [(o, n, o.__dict__[n]) for o, n, _ in extra]
    for o, n, v in extra:
        setattr(o, n, v)
    try:
        yield fs
    finally:
        for (obj, name), orig in real.items():
            setattr(obj, name, orig)
        for o, n, v in saved:
            setattr(o, n, v)


# ---------------------------------------------------------------------- validation against the real FS
def selfcheck():
    """Concrete differential run: scripted op lists on a real temp dir and on the model.  Returns check rows."""
    import tempfile
    rows = []

    def script(root, o, sh, op):
        """One scenario; returns an observation list.  `o`/`sh`/`op` = os / shutil / open to use."""
        obs = []

        def t(fn):
            try:
                return ("ok", fn())
            except OSError as e:
                return ("err", type(e).__name__)
        j = posixpath.join
        obs.append(t(lambda: o.mkdir(j(root, "a"))))
        obs.append(t(lambda: o.mkdir(j(root, "a"))))
        obs.append(t(lambda: o.mkdir(j(root, "x", "y"))))
        o.makedirs(j(root, "a", "b", "c"))
        with op(j(root, "a", "f1"), "wb") as f:
            f.write(b"hello")
            f.write(b" world")
        with op(j(root, "a", "b", "f2"), "w") as f:
            f.write("text")
        obs.append(t(lambda: sorted(o.listdir(j(root, "a")))))
        obs.append(t(lambda: o.path.getsize(j(root, "a", "f1"))))
        obs.append(t(lambda: o.path.exists(j(root, "a", "nope"))))
        obs.append(t(lambda: o.path.isdir(j(root, "a", "b"))))
        obs.append(t(lambda: op(j(root, "a", "f1"), "rb").read()))
        obs.append(t(lambda: op(j(root, "a", "nope"), "rb").read()))
        obs.append(t(lambda: op(j(root, "zz", "nope"), "wb")))
        obs.append(t(lambda: o.replace(j(root, "a", "f1"), j(root, "a", "b", "f2"))))
        obs.append(t(lambda: op(j(root, "a", "b", "f2"), "rb").read()))
        obs.append(t(lambda: o.replace(j(root, "a", "f1"), j(root, "a", "f3"))))
        obs.append(t(lambda: o.unlink(j(root, "a", "f3"))))
        obs.append(t(lambda: o.rmdir(j(root, "a"))))
        obs.append(t(lambda: o.rmdir(j(root, "a", "b", "c"))))
        obs.append(t(lambda: [(posixpath.relpath(d, root), sorted(ds), sorted(fs)) for d, ds, fs in o.walk(root)]))
        # a directory vanishing during the walk is swallowed
        o.makedirs(j(root, "w", "d1"))
        o.makedirs(j(root, "w", "d2"))
        seen = []
        for d, ds, fs in o.walk(j(root, "w")):
            seen.append(posixpath.relpath(d, root))
            if d.endswith("w"):
                sh.rmtree(j(root, "w", "d1"))
                sh.rmtree(j(root, "w", "d2"))
        obs.append(("walk-vanish", sorted(seen)))
        obs.append(t(lambda: sh.rmtree(j(root, "a"))))
        obs.append(t(lambda: sh.rmtree(j(root, "a"))))
        obs.append(t(lambda: sh.rmtree(j(root, "a"), ignore_errors=True)))
        obs.append(t(lambda: sorted(o.listdir(root))))
        obs.append(t(lambda: o.listdir(j(root, "gone"))))
        return obs

    with tempfile.TemporaryDirectory() as real_root:
        real_obs = script(real_root, os, shutil, open)
    fs = FS()
    with installed(fs):
        fs.dirs.add(PREFIX + "/root")
        fake_obs = script(PREFIX + "/root", os, shutil, open)
    for i, (r, f) in enumerate(zip(real_obs, fake_obs)):
        rows.append(("fakefs vs real fs step %d" % i, r == f, "real=%r fake=%r" % (r, f)))
    rows.append(("fakefs trace recorded", len(fs.trace) > 10, str(len(fs.trace))))
    return rows
