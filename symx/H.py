"""Harness-side support: parameter blocks, vacuity twin, known-finding filters, path counters.

Every obligation function (harness/Cxx.py) has the shape

    def ob_xxx(a: int, b: bool, ...) -> bool:
        '''
        pre: <bounds>
        post: _
        '''
        H.enter()
        ...                      # drive the real joblib code with the symbolic values
        return H.verdict(ok)     # the property as a bool

The worker process sets PARAMS / TWIN / KF before handing the function to CrossHair.
"""
from crosshair.util import IgnoreAttempt

PARAMS = {}          # parameter block of the obligation being analysed (fixed, concrete)
TWIN = False         # reachability twin: the final assertion is `False`
KF_EXCLUDE = set()   # ids of *recorded* known findings: their input class is assumed away
KF_ONLY = None       # id of the recorded finding whose class is being re-examined
STATS = {"paths": 0, "asserted": 0, "ignored": 0}
NOTES = []           # diagnostics of the last concrete run (replay mode)


def enter():
    STATS["paths"] += 1
    del NOTES[:]


def assume(cond):
    """In-body assumption (used where a `pre:` line cannot express it)."""
    if not cond:
        STATS["ignored"] += 1
        raise IgnoreAttempt("assume")


def known(kf_id, cond):
    """Declare that the current path lies in the input class of known finding `kf_id`
    iff `cond`.  Recorded findings: the class is excluded from the main obligation and
    examined on its own by the `only` run.  Fixed or unlisted ids: no effect at all."""
    if KF_ONLY is not None:
        if kf_id == KF_ONLY:
            if not cond:
                STATS["ignored"] += 1
                raise IgnoreAttempt("kf-only")
        return
    if kf_id in KF_EXCLUDE:
        if cond:
            STATS["ignored"] += 1
            raise IgnoreAttempt("kf-exclude")


def note(*a):
    NOTES.append(" ".join(str(x) for x in a))


def verdict(ok, *why):
    """Final assertion of an obligation."""
    STATS["asserted"] += 1
    if TWIN:
        return False
    if not ok and why:
        note("FAILED:", *why)
    return bool(ok) if isinstance(ok, bool) else ok


def P(name, default=None):
    return PARAMS.get(name, default)


def select(sym, lo, hi):
    """Explicit case split of a bounded symbolic selector into a concrete int (one solver-decided
    branch per value; the declared range [lo, hi] must have been assumed in `pre:`)."""
    for v in range(lo, hi + 1):
        if sym == v:
            return v
    raise IgnoreAttempt("selector outside declared range")


def select_bisect(sym, lo, hi):
    """As select(), with O(log n) solver-decided branches per path (for wide ranges such as switch-point
    indices).  The declared range must have been assumed."""
    while lo < hi:
        mid = (lo + hi) // 2
        if sym <= mid:
            hi = mid
        else:
            lo = mid + 1
    return lo


def native():
    """Context manager: run a block natively (selector mode, all inputs already concrete)."""
    from crosshair.tracers import NoTracing
    return NoTracing()


class Watchdog:
    """Safety net for native (selector-mode) sections: a run that does not come back within `seconds` raises
    NonTermination in the worker's main thread.  Termination claims are otherwise made by fuel counters in the
    harnesses; this only keeps a looping mutant from hanging the check."""

    def __init__(self, seconds):
        self.seconds = seconds

    def __enter__(self):
        import signal

        def handler(signum, frame):
            raise NonTermination("no result within %ss" % self.seconds)
        self._old = signal.signal(signal.SIGALRM, handler)
        signal.setitimer(signal.ITIMER_REAL, self.seconds)
        return self

    def __exit__(self, *a):
        import signal
        signal.setitimer(signal.ITIMER_REAL, 0)
        signal.signal(signal.SIGALRM, self._old)
        return False


class NonTermination(Exception):
    pass
