"""./check <property> [--tier quick|thorough]   |   ./check --replay <file>

Schedules the obligations of one property over worker processes (symx.worker), replays
counterexamples concretely, applies known_findings.json, writes evidence/<id>.json.

exit 0: nothing unlisted violated in what was explored
exit 1: VIOLATION property=<id> replay=<path>     (counterexample reproduced on the real code)
exit 3: harness / tooling error (never a verdict about joblib)
"""
import argparse
import concurrent.futures as cf
import importlib
import json
import os
import subprocess
import sys
import time

ROOT = os.path.dirname(os.path.dirname(os.path.abspath(__file__)))
PY = os.path.join(ROOT, ".venv", "bin", "python")
EVID = os.path.join(ROOT, "evidence")
if os.environ.get("VERIF_REPO", "/repo") != "/repo":
    # mutation-testing runs against a scratch worktree must not overwrite the real evidence
    EVID = os.path.join("/tmp/verif_seed_evidence", os.path.basename(os.environ["VERIF_REPO"]))
REPLAYS = os.path.join(EVID, "replays")
NPROC = int(os.environ.get("VERIF_JOBS", "16"))


def run_worker(spec, hard_timeout):
    env = dict(os.environ)
    env["PYTHONHASHSEED"] = "0"
    env["PYTHONDONTWRITEBYTECODE"] = "1"
    env.pop("PYTHONPATH", None)
    t0 = time.time()
    try:
        p = subprocess.run([PY, "-m", "symx.worker", json.dumps(spec)], cwd=ROOT, env=env,
                           capture_output=True, text=True, timeout=hard_timeout)
    except subprocess.TimeoutExpired:
        return {"name": spec.get("name", spec["fn"]), "fn": spec["fn"], "params": spec.get("params", {}),
                "verdict": "inconclusive", "message": "worker killed after %ds" % hard_timeout,
                "wall_s": round(time.time() - t0, 1)}
    lines = [ln for ln in p.stdout.splitlines() if ln.startswith("{")]
    if not lines:
        return {"name": spec.get("name", spec["fn"]), "fn": spec["fn"], "params": spec.get("params", {}),
                "verdict": "harness_error",
                "detail": "no result; rc=%s stderr=%s" % (p.returncode, p.stderr[-1500:])}
    try:
        return json.loads(lines[-1])
    except Exception as e:
        return {"name": spec.get("name", spec["fn"]), "fn": spec["fn"], "verdict": "harness_error",
                "detail": "bad json %r" % e}


def load_known():
    path = os.path.join(ROOT, "known_findings.json")
    if not os.path.exists(path):
        return []
    return json.load(open(path)).get("findings", [])


def replay_spec(ob, args, kwargs, kf_exclude=(), kf_only=None):
    return {"harness": ob["harness"], "fn": ob["fn"], "params": ob.get("params", {}), "mode": "replay",
            "kind": ob.get("kind", "symbolic"), "name": ob["name"], "args": args, "kwargs": kwargs,
            "numpy": ob.get("numpy", False), "kf_exclude": list(kf_exclude), "kf_only": kf_only}


def do_replay(path):
    rec = json.load(open(path))
    r = run_worker(rec["spec"], 600)
    print(json.dumps(r, indent=1))
    if r.get("outcome") == "fail":
        print("REPRODUCED property=%s obligation=%s" % (rec.get("property"), rec["spec"].get("name")))
        return 1
    print("not reproduced (outcome=%s)" % r.get("outcome"))
    return 0


def main(argv=None):
    ap = argparse.ArgumentParser()
    ap.add_argument("prop", nargs="?")
    ap.add_argument("--tier", default=os.environ.get("VERIF_TIER", "quick"))
    ap.add_argument("--replay")
    ap.add_argument("--only", help="substring filter on obligation names (debugging)")
    ap.add_argument("--list", action="store_true")
    a = ap.parse_args(argv)
    if a.replay:
        return do_replay(a.replay)
    tier = a.tier if a.tier in ("quick", "thorough") else "quick"
    try:
        seed = int(os.environ.get("VERIF_SEED", "0"))
    except ValueError:
        seed = 0
    prop = a.prop
    sys.path.insert(0, ROOT)
    t_start = time.time()
    hmod_name = "harness.%s" % prop
    hmod = importlib.import_module(hmod_name)
    obs = hmod.obligations(tier, seed)
    for ob in obs:
        ob.setdefault("harness", hmod_name)
        ob.setdefault("params", {})
        ob.setdefault("timeout", 60)
        ob.setdefault("kind", "symbolic")
        ob.setdefault("mode", "T")
    if a.only:
        obs = [ob for ob in obs if a.only in ob["name"]]
    if a.list:
        for ob in obs:
            print(ob["name"], ob["fn"], ob["params"], ob["timeout"])
        return 0
    names = [ob["name"] for ob in obs]
    assert len(set(names)) == len(names), "duplicate obligation names"

    known = [k for k in load_known() if prop in k.get("properties", [k.get("property")])]
    recorded = {k["id"]: k for k in known if k.get("status") == "recorded"}
    kf_exclude = sorted(recorded)

    os.makedirs(REPLAYS, exist_ok=True)
    for f in os.listdir(REPLAYS):
        if f.startswith(prop + "_"):
            os.unlink(os.path.join(REPLAYS, f))

    jobs = []  # (kind, ob, spec)
    if hasattr(hmod, "validate"):
        jobs.append(("validate", None, {"harness": hmod_name, "fn": "validate", "mode": "validate",
                                        "name": "validate", "timeout": 300,
                                        "numpy": getattr(hmod, "VALIDATE_NUMPY", False)}))
    for ob in obs:
        spec = {"harness": ob["harness"], "fn": ob["fn"], "params": ob["params"], "mode": "check",
                "kind": ob["kind"], "name": ob["name"], "timeout": ob["timeout"],
                "numpy": ob.get("numpy", False), "kf_exclude": kf_exclude, "kf_only": None}
        if "twin_timeout" in ob:
            spec["twin_timeout"] = ob["twin_timeout"]
        jobs.append(("main", ob, spec))
        for kid in ob.get("kf", []):
            if kid in recorded:
                s2 = dict(spec, kf_only=kid, kf_exclude=[], name=ob["name"] + "@" + kid,
                          timeout=min(ob["timeout"], 120))
                jobs.append(("kf", ob, s2))
    jobs.sort(key=lambda j: -j[2].get("timeout", 60))

    results = []
    with cf.ThreadPoolExecutor(max_workers=NPROC) as ex:
        futs = {ex.submit(run_worker, spec, int(spec.get("timeout", 60) * 2.5 + 120)): (kind, ob, spec)
                for kind, ob, spec in jobs}
        for fut in cf.as_completed(futs):
            kind, ob, spec = futs[fut]
            results.append((kind, ob, spec, fut.result()))

    violations, harness_errors, kf_lines = [], [], []
    validation = None
    per_ob = []
    kf_seen = {}
    for kind, ob, spec, r in results:
        if kind == "validate":
            validation = r
            if r.get("verdict") != "ok":
                harness_errors.append("stub validation failed: %s" % (r.get("detail") or r.get("checks")))
            continue
        v = r.get("verdict")
        entry = {"name": spec["name"], "fn": spec["fn"], "params": spec["params"], "mode": ob["mode"],
                 "kind": ob["kind"], "bounds": ob.get("bounds", ""), "verdict": v,
                 "paths": r.get("paths", 0), "asserted": r.get("asserted", 0),
                 "queries": r.get("queries", 0), "solver_s": r.get("solver_s", 0.0),
                 "wall_s": r.get("wall_s", 0.0), "twin": r.get("twin"), "smoke": r.get("smoke"),
                 "functions": r.get("functions", [])}
        if v == "counterexample":
            rs = replay_spec(ob, r.get("args", []), r.get("kwargs", {}),
                             kf_exclude=spec["kf_exclude"], kf_only=spec["kf_only"])
            rr = run_worker(rs, 600)
            entry["counterexample"] = {"args": r.get("args"), "kwargs": r.get("kwargs"),
                                       "message": r.get("message", "")[:600],
                                       "replay": rr.get("outcome"), "replay_detail": rr.get("detail", "")[:600]}
            if rr.get("outcome") == "fail":
                if kind == "kf":
                    kid = spec["kf_only"]
                    kf_seen[kid] = entry["counterexample"]
                    entry["verdict"] = "known-finding-reproduced"
                else:
                    path = os.path.join(REPLAYS, "%s_%s.json" % (prop, spec["name"].replace("/", "_")))
                    json.dump({"property": prop, "spec": rs, "message": r.get("message"),
                               "replay_detail": rr.get("detail")}, open(path, "w"), indent=1)
                    violations.append((spec["name"], path, r.get("message", "")[:300], rr.get("detail", "")[:300]))
                    entry["verdict"] = "violation"
            else:
                harness_errors.append("counterexample of %s did not reproduce concretely: %s -> %s" % (
                    spec["name"], r.get("message", "")[:300], rr))
                entry["verdict"] = "cex-not-reproduced"
        elif v == "confirmed":
            if kind == "kf":
                entry["verdict"] = "known-finding-class-now-confirmed"
        elif v == "vacuous":
            if kind == "kf":
                entry["verdict"] = "known-finding-class-unreachable"
            else:
                harness_errors.append("obligation %s is vacuous (twin %s) %s" % (
                    spec["name"], r.get("twin"), r.get("twin_msgs")))
        elif v == "harness_error":
            harness_errors.append("%s: %s" % (spec["name"], r.get("detail")))
        else:
            entry["message"] = r.get("message", "")[:400]
        entry["is_kf_run"] = (kind == "kf")
        per_ob.append(entry)

    for kid, cex in sorted(kf_seen.items()):
        kf_lines.append("KNOWN-FINDING: property=%s %s [%s] witness=%s" % (
            prop, recorded[kid]["what"], kid, json.dumps(cex["args"])[:200]))

    per_ob.sort(key=lambda e: e["name"])
    main_obs = [e for e in per_ob if not e["is_kf_run"]]
    confirmed = [e for e in main_obs if e["verdict"] == "confirmed"]
    inconclusive = [e for e in main_obs if e["verdict"] == "inconclusive"]
    functions = sorted({f for e in per_ob for f in e["functions"]})
    samples = []
    for e in main_obs[:]:
        if e.get("smoke") and len(samples) < 8:
            samples.append({"obligation": e["name"], "params": e["params"],
                            "path_witness_args": e["smoke"]["args"], "bounds": e["bounds"]})
    wall = round(time.time() - t_start, 2)
    cov = {
        "explanation": getattr(hmod, "EXPLANATION", "") + " | Bounded symbolic execution of the current /repo "
                       "source with CrossHair 0.0.110 + z3: each obligation's path tree is explored until "
                       "exhausted (confirmed), refuted (counterexample, replayed concretely) or out of budget "
                       "(inconclusive, not counted as discharged).",
        "obligations": len(main_obs),
        "discharged": len(confirmed),
        "inconclusive": [e["name"] for e in inconclusive],
        "evaluations": sum(e["paths"] for e in main_obs),
        "distinct_nontrivial": sum(e["asserted"] for e in main_obs),
        "rule": "evaluations = symbolic paths explored by CrossHair over all obligations (one path = one "
                "feasible branch-decision sequence through the real joblib code, each decision a z3 query); "
                "distinct_nontrivial = paths that satisfied every precondition/assumption and reached the "
                "property assertion (CrossHair never explores the same decision sequence twice).",
        "samples": samples or [{"note": "no obligation produced a witness"}],
        "solver_queries": sum(e["queries"] for e in per_ob),
        "solver_s": round(sum(e["solver_s"] for e in per_ob), 2),
        "functions_encoded": functions,
        "checker_cmd": "./check %s --tier %s" % (prop, tier),
        "trusted_base": ["CrossHair 0.0.110 symbolic interpreter", "z3 %s" % _z3v(), "CPython 3.12"]
                        + list(getattr(hmod, "STUBS", [])),
        "stub_validation": validation.get("checks") if validation else None,
        "outside_claim": list(getattr(hmod, "OUTSIDE", [])),
        "known_findings_reproduced": sorted(kf_seen),
        "per_obligation": [{k: v for k, v in e.items() if k not in ("functions", "smoke")} for e in per_ob],
        "exhaustive": False,
    }
    evid = {"property_id": prop, "tier": tier, "seed": seed, "level": "other", "coverage": cov,
            "assumptions": list(getattr(hmod, "ASSUMES", [])), "wall_s": wall, "violations": len(violations)}
    os.makedirs(EVID, exist_ok=True)
    json.dump(evid, open(os.path.join(EVID, "%s.json" % prop), "w"), indent=1, default=str)

    print("%s tier=%s obligations=%d confirmed=%d inconclusive=%d violations=%d paths=%d queries=%d wall=%.1fs" % (
        prop, tier, len(main_obs), len(confirmed), len(inconclusive), len(violations),
        cov["evaluations"], cov["solver_queries"], wall))
    for e in inconclusive:
        print("  inconclusive: %s (%s paths) %s" % (e["name"], e["paths"], e.get("message", "")[:160]))
    for ln in kf_lines:
        print(ln)
    for name, path, msg, det in violations:
        print("  counterexample in %s: %s || %s" % (name, msg, det))
        print("VIOLATION property=%s replay=%s" % (prop, path))
    if violations:
        return 1
    if harness_errors:
        for h in harness_errors:
            print("HARNESS-ERROR: %s" % h, file=sys.stderr)
        return 3
    return 0


def _z3v():
    try:
        out = subprocess.run([PY, "-c", "import z3;print(z3.get_version_string())"], capture_output=True, text=True)
        return out.stdout.strip()
    except Exception:
        return "?"


if __name__ == "__main__":
    sys.exit(main())
