"""One obligation, one process.

    python -m symx.worker '<json spec>'

spec = {harness, fn, params, mode: "check"|"replay", timeout, args?, kwargs?,
        kf_exclude: [...], kf_only: id|null, numpy: bool}

check : reachability twin (must be refuted) -> concrete smoke run of the twin's witness with a
        function-entry recorder -> the obligation itself under CrossHair.
replay: plain concrete execution of the harness function on literal arguments.
The last stdout line is a JSON result.
"""
import ast
import collections
import importlib
import json
import os
import sys
import time
import traceback

ROOT = os.path.dirname(os.path.dirname(os.path.abspath(__file__)))
REPO = os.environ.get("VERIF_REPO", "/repo")


def _parse_call(message, fn_name):
    """Extract literal (args, kwargs) from CrossHair's '... when calling fn(a, b, k=v) ...'."""
    key = "when calling "
    i = message.find(key)
    if i < 0:
        return None
    s = message[i + len(key):]
    for end in range(len(s)):
        if s[end] != ")":
            continue
        try:
            node = ast.parse(s[: end + 1], mode="eval").body
        except SyntaxError:
            continue
        if isinstance(node, ast.Call):
            try:
                args = [ast.literal_eval(a) for a in node.args]
                kwargs = {k.arg: ast.literal_eval(k.value) for k in node.keywords}
            except Exception:
                return None
            return args, kwargs
    return None


def _concrete(fn, args, kwargs, record=None):
    """Plain execution.  Returns (outcome, detail): pass | fail | ignored."""
    from crosshair.util import IgnoreAttempt
    from symx import H

    prof = None
    if record is not None:
        def prof(frame, event, arg):
            if event == "call":
                co = frame.f_code
                if co.co_filename.startswith(REPO + "/joblib"):
                    record[(os.path.relpath(co.co_filename, REPO), co.co_qualname)] += 1
        sys.setprofile(prof)
    try:
        try:
            r = fn(*args, **kwargs)
        finally:
            if prof is not None:
                sys.setprofile(None)
    except IgnoreAttempt:
        return "ignored", ""
    except Exception as e:  # an exception escaping the harness is a failed assertion
        return "fail", "%s: %s | %s" % (
            type(e).__name__, e, traceback.format_exc(limit=-6).replace("\n", " / ")[-1500:])
    if r:
        return "pass", ""
    return "fail", "; ".join(H.NOTES)[-1500:]


def main():
    spec = json.loads(sys.argv[1])
    sys.path.insert(0, ROOT)
    if REPO != "/repo":
        # development aid only (mutation testing against a scratch worktree); registered checks use /repo
        sys.path.insert(0, REPO)
    if spec.get("numpy"):
        sys.path.insert(0, os.path.join(ROOT, ".np"))
    sys.setrecursionlimit(10000)
    res = {"harness": spec["harness"], "fn": spec["fn"], "params": spec.get("params", {}),
           "name": spec.get("name", spec["fn"])}
    t_start = time.time()

    from symx import H
    H.PARAMS = dict(spec.get("params", {}))
    H.KF_EXCLUDE = set(spec.get("kf_exclude", []))
    H.KF_ONLY = spec.get("kf_only")
    mod = importlib.import_module(spec["harness"])
    fn = getattr(mod, spec["fn"])
    if hasattr(mod, "prepare"):
        mod.prepare(H.PARAMS)     # concrete set-up outside tracing (build programs, warm caches)

    if spec["mode"] == "validate":
        try:
            checks = [[str(n), bool(ok), str(d)[:300]] for n, ok, d in fn()]
            res.update(verdict="ok" if all(c[1] for c in checks) else "failed", checks=checks,
                       detail="; ".join("%s: %s" % (c[0], c[2]) for c in checks if not c[1]))
        except Exception as e:
            res.update(verdict="failed", checks=[], detail="%r %s" % (e, traceback.format_exc()[-1500:]))
        res["wall_s"] = round(time.time() - t_start, 2)
        print(json.dumps(res))
        return 0

    if spec.get("kind") == "lemma":
        # direct SMT lemma about a kernel that was cut out of the traced code (QF_FP etc.)
        if spec["mode"] == "replay":
            rfn = getattr(mod, spec["fn"] + "_replay")
            try:
                ok = rfn(*spec.get("args", []))
                res.update(outcome="pass" if ok else "fail", detail="")
            except Exception as e:
                res.update(outcome="fail", detail="%s: %s" % (type(e).__name__, e))
        else:
            try:
                r = fn(dict(H.PARAMS))
                res.update(r)
                res.setdefault("twin", "refuted" if r.get("sanity") == "sat" else "not-refuted:" + str(r.get("sanity")))
                if res["twin"] != "refuted":
                    res["verdict"] = "vacuous"
                res.setdefault("paths", 1)
                res.setdefault("asserted", 1)
                res.setdefault("functions", [])
            except Exception as e:
                res.update(verdict="harness_error", detail="lemma: %r %s" % (e, traceback.format_exc()[-1500:]))
        res["wall_s"] = round(time.time() - t_start, 2)
        print(json.dumps(res))
        return 0

    if spec["mode"] == "replay":
        H.TWIN = False
        outcome, detail = _concrete(fn, spec.get("args", []), spec.get("kwargs", {}))
        res.update(outcome=outcome, detail=detail, wall_s=round(time.time() - t_start, 3))
        print(json.dumps(res))
        return 0

    import z3
    Q = {"n": 0, "t": 0.0}
    _orig_check = z3.Solver.check

    def _check(self, *a):
        t = time.perf_counter()
        try:
            return _orig_check(self, *a)
        finally:
            Q["n"] += 1
            Q["t"] += time.perf_counter() - t
    z3.Solver.check = _check

    from crosshair.core_and_libs import analyze_function, run_checkables, MessageType
    from crosshair.options import AnalysisOptionSet

    # CrossHair may "short-circuit" calls to repr()/hash()/print() (skip the body, return a fresh symbolic,
    # reconcile at the end of the path) with probability 0.3 per call: sound, but it doubles the path tree at
    # every such call and interacts badly with caches.  Always call into the real function instead.
    import crosshair.core as _cc
    _orig_consider = _cc.consider_shortcircuit

    def _consider(fn_, sig, bound, subconditions, allow_interpretation):
        if allow_interpretation:
            return None
        return _orig_consider(fn_, sig, bound, subconditions, allow_interpretation)
    _cc.consider_shortcircuit = _consider

    timeout = float(spec.get("timeout", 60))

    def analyse(tmo, stop_at_first=False):
        stats = collections.Counter()
        opts = AnalysisOptionSet(per_condition_timeout=tmo, per_path_timeout=max(10.0, tmo / 4),
                                 report_all=True, report_verbose=False, stats=stats)
        msgs = []
        for m in run_checkables(analyze_function(fn, opts)):
            msgs.append((m.state.name, m.message))
        return msgs, stats

    # ---- reachability twin -------------------------------------------------------------
    H.TWIN = True
    for k in H.STATS:
        H.STATS[k] = 0
    t0 = time.time()
    try:
        tmsgs, _ = analyse(min(timeout, float(spec.get("twin_timeout", 40))))
    except Exception as e:
        res.update(verdict="harness_error", detail="twin: %r %s" % (e, traceback.format_exc()[-1500:]))
        print(json.dumps(res))
        return 0
    res["twin_s"] = round(time.time() - t0, 2)
    twin_witness = None
    for st, msg in tmsgs:
        if st in ("POST_FAIL",):
            twin_witness = _parse_call(msg, spec["fn"])
            res["twin"] = "refuted"
            break
    else:
        res["twin"] = "not-refuted:" + ",".join(s for s, _ in tmsgs)
        res["twin_msgs"] = [m[:300] for _, m in tmsgs]
    H.TWIN = False
    # concrete smoke run of the witness: which functions of /repo does this obligation drive?
    traced = collections.Counter()
    if twin_witness is not None:
        outcome, detail = _concrete(fn, twin_witness[0], twin_witness[1], record=traced)
        res["smoke"] = {"args": repr(twin_witness[0])[:300], "outcome": outcome, "detail": detail[:300]}
    res["functions"] = sorted("%s:%s" % k for k in traced)
    if res["twin"] != "refuted":
        res.update(verdict="vacuous", wall_s=round(time.time() - t_start, 2),
                   queries=Q["n"], solver_s=round(Q["t"], 2))
        print(json.dumps(res))
        return 0

    # ---- the obligation ----------------------------------------------------------------
    for k in H.STATS:
        H.STATS[k] = 0
    q0, qt0 = Q["n"], Q["t"]
    t0 = time.time()
    try:
        msgs, stats = analyse(timeout)
    except Exception as e:
        res.update(verdict="harness_error", detail="main: %r %s" % (e, traceback.format_exc()[-1500:]))
        print(json.dumps(res))
        return 0
    res["analysis_s"] = round(time.time() - t0, 2)
    res["paths"] = H.STATS["paths"]
    res["asserted"] = H.STATS["asserted"]
    res["ignored"] = H.STATS["ignored"]
    res["queries"] = Q["n"] - q0
    res["solver_s"] = round(Q["t"] - qt0, 2)
    res["ch_stats"] = {k: v for k, v in stats.items() if isinstance(v, (int, float))}
    states = [s for s, _ in msgs]
    res["states"] = states
    cex = None
    for st, msg in msgs:
        if st in ("POST_FAIL", "EXEC_ERR", "POST_ERR", "PRE_INVALID", "SYNTAX_ERR", "IMPORT_ERR"):
            cex = (st, msg)
            break
    if cex is not None:
        parsed = _parse_call(cex[1], spec["fn"])
        res["verdict"] = "counterexample"
        res["message"] = cex[1][:2000]
        if parsed is not None:
            res["args"], res["kwargs"] = parsed
        else:
            res["verdict"] = "harness_error"
            res["detail"] = "unparsable counterexample: " + cex[1][:500]
    elif states and all(s == "CONFIRMED" for s in states):
        res["verdict"] = "confirmed"
    elif not states:
        res["verdict"] = "harness_error"
        res["detail"] = "no conditions found"
    else:
        res["verdict"] = "inconclusive"
        res["message"] = "; ".join("%s %s" % (s, m[:200]) for s, m in msgs)
    res["wall_s"] = round(time.time() - t_start, 2)
    print(json.dumps(res))
    return 0


if __name__ == "__main__":
    sys.exit(main())
