#!/bin/bash
# tools_verify_seed.sh <seed_out_dir> <name>
# Confirms a seeded change in a scratch worktree of /repo's HEAD: demo passes clean, fails with the patch,
# and the repository's own test-suite still passes with the patch.  Writes <dir>/verify.json, copies the
# triple to /verif/seeded/<name>/ when everything holds.  The worktree is removed afterwards.
D=$1; NAME=$2
WT=/tmp/wt/verify_$NAME
git -C /repo worktree remove --force $WT >/dev/null 2>&1
git -C /repo worktree add --detach $WT HEAD >/dev/null 2>&1 || { echo "worktree failed"; exit 2; }
cd $WT
DEMO=demo.py; [ -f $D/demo.py ] || DEMO=$(cd $D; ls demo*.py | head -1)
cp $D/$DEMO $WT/_seed_demo.py
run_demo() { if grep -q "^def test_" _seed_demo.py && ! grep -q "__main__" _seed_demo.py; then PYTHONPATH=$WT timeout 600 /venv/bin/python -m pytest -q -p no:cacheprovider _seed_demo.py >/tmp/wt/verify_$NAME.demo.log 2>&1; else PYTHONPATH=$WT timeout 600 /venv/bin/python _seed_demo.py >/tmp/wt/verify_$NAME.demo.log 2>&1; fi; echo $?; }
CLEAN=$(run_demo)
if ! git apply $D/patch.diff; then APPLY=fail; WITH=na; SUITE=na; else
APPLY=ok
WITH=$(run_demo)
rm -f _seed_demo.py
PYTHONPATH=$WT timeout 1500 /venv/bin/python -m pytest -q -p no:cacheprovider --timeout=900 joblib > /tmp/wt/verify_$NAME.suite.log 2>&1
SUITE_RC=$?
SUITE=$(grep -aE "passed|failed" /tmp/wt/verify_$NAME.suite.log | tail -1 | sed 's/\x1b\[[0-9;]*m//g')
fi
cd /
git -C /repo worktree remove --force $WT
HEAD=$(git -C /repo rev-parse --short HEAD)
printf '{"name":"%s","repo_head":"%s","apply":"%s","demo_clean_rc":"%s","demo_with_patch_rc":"%s","suite_rc":"%s","suite":"%s"}\n' "$NAME" "$HEAD" "$APPLY" "$CLEAN" "$WITH" "$SUITE_RC" "$SUITE" > $D/verify.json
cat $D/verify.json
if [ "$APPLY" = ok ] && [ "$CLEAN" = 0 ] && [ "$WITH" != 0 ] && [ "$SUITE_RC" = 0 ]; then
  mkdir -p /verif/seeded/$NAME && cp $D/patch.diff /verif/seeded/$NAME/ && cp $D/$DEMO /verif/seeded/$NAME/demo.py && cp $D/meta.json /verif/seeded/$NAME/meta.agent.json && cp $D/verify.json /verif/seeded/$NAME/verify.json && echo "KEPT $NAME"
else echo "REJECTED $NAME"; fi
rm -f /tmp/wt/verify_$NAME.suite.log /tmp/wt/verify_$NAME.demo.log
