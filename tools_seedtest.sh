#!/bin/bash
# tools_seedtest.sh <seed-name> <property> [tier]  : run ./check <property> against a scratch worktree of /repo
# with /verif/seeded/<seed-name>/patch.diff applied (never touches /repo).  Prints DETECTED / MISSED.
NAME=$1; PROP=$2; TIER=${3:-quick}
WT=/tmp/wt/st_${NAME}_$PROP
git -C /repo worktree remove --force $WT >/dev/null 2>&1
git -C /repo worktree add --detach $WT HEAD >/dev/null 2>&1 || exit 2
if ! git -C $WT apply /verif/seeded/$NAME/patch.diff 2>/dev/null && ! git -C $WT apply --3way /verif/seeded/$NAME/patch.diff 2>/dev/null; then echo "$NAME $PROP APPLY-FAILED"; git -C /repo worktree remove --force $WT; exit 2; fi
OUT=$(cd /verif && VERIF_REPO=$WT VERIF_EVID_SUFFIX=.seedtest ./check $PROP --tier $TIER 2>&1); RC=$?
git -C /repo worktree remove --force $WT
if [ $RC = 1 ]; then echo "$NAME $PROP DETECTED: $(echo "$OUT" | grep -m1 'counterexample in' | cut -c1-300)";
elif [ $RC = 0 ]; then echo "$NAME $PROP MISSED: $(echo "$OUT" | head -1)";
else echo "$NAME $PROP HARNESS-ERROR rc=$RC: $(echo "$OUT" | grep -m2 HARNESS | cut -c1-400)"; fi
