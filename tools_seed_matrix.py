#!/usr/bin/env python3
"""Run every seeded change against the quick check of the property it breaks (and of related properties) in a scratch
worktree (tools_seedtest.sh) and record the outcome in seeded/RESULTS.json.  Development aid, not a registered check."""
import json, os, subprocess, sys, time
ROOT = os.path.dirname(os.path.abspath(__file__))
EXTRA = {  # seed -> properties to run besides the one in its name
    "REVERT_filter_args": ["C07", "C02", "C06"], "REVERT_ready_batches": ["C04", "C16"], "REVERT_fill_buffer": ["C14"],
    "REVERT_first_line": ["C05", "C11"], "REVERT_expires_after": ["C05"], "REVERT_delete_folder": ["C11"],
    "REVERT_frozenset": ["C08", "C06"], "REVERT_sharedmem": ["C17"], "REVERT_dispatch_new_callid": ["C04"],
    "REVERT_callid_window": ["C04"], "REVERT_hash_partial_order": ["C08"], "REVERT_inmemory_shortcut": ["C12"],
    "REVERT_code_id_refresh": ["C12"], "REVERT_func_code_race": ["C11"], "REVERT_mkdirp_race": ["C11"],
    "REVERT_memmap_views": ["C19"], "REVERT_torn_multibyte": ["C05"], "REVERT_pre_dispatch_zero": ["C01"],
    "REVERT_sequential_verbose": ["C04"], "REVERT_predispatch_all_error": ["C04"], "REVERT_setup_failure_running": ["C04"],
    "REVERT_mkdirp_two_clears": ["C11"], "REVERT_interrupted_wipe": ["C05"], "REVERT_function_table_race": ["C11"],
    "REVERT_mmap_reload": ["C11"], "REVERT_forced_call_code": ["C12", "C06"], "REVERT_kwargs_self_func": ["C06"],
    "REVERT_nested_partial_orders": ["C08"], "REVERT_detect_compressor_position": ["C03"],
    "REVERT_method_self_keyword": ["C07"], "REVERT_tracker_shutdown_warning": ["C20"],
    "REVERT_foreign_thread_close": ["C16"], "REVERT_input_base_exception": ["C04"], "C02_A": ["C02", "C07"], "C06_A": ["C06", "C07"], "C15_B": ["C15", "C10"],
}
only = sys.argv[1:] 
res_path = os.path.join(ROOT, "seeded", "RESULTS.json")
results = json.load(open(res_path)) if os.path.exists(res_path) else {}
for name in sorted(os.listdir(os.path.join(ROOT, "seeded"))):
    if not os.path.isdir(os.path.join(ROOT, "seeded", name)) or (only and name not in only):
        continue
    props = EXTRA.get(name, [name.split("_")[0]])
    for prop in props:
        key = "%s@%s" % (name, prop)
        t0 = time.time()
        p = subprocess.run([os.path.join(ROOT, "tools_seedtest.sh"), name, prop], capture_output=True, text=True, timeout=3600)
        line = (p.stdout.strip().splitlines() or [""])[-1]
        verdict = "DETECTED" if " DETECTED" in line else ("MISSED" if " MISSED" in line else "ERROR")
        head = subprocess.run(["git", "-C", "/repo", "rev-parse", "--short", "HEAD"], capture_output=True, text=True).stdout.strip()
        results[key] = {"seed": name, "property": prop, "tier": "quick", "verdict": verdict, "detail": line[:400],
                        "repo_head": head, "wall_s": round(time.time() - t0, 1)}
        print(key, verdict, round(time.time() - t0), flush=True)
        json.dump(results, open(res_path, "w"), indent=1)
