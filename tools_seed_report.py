#!/usr/bin/env python3
"""seeded/RESULTS.json -> seeded/RESULTS.md and seeded/<name>/meta.json (what it breaks, what it needs, what was run)."""
import json, os
ROOT = os.path.dirname(os.path.abspath(__file__))
res = json.load(open(os.path.join(ROOT, "seeded", "RESULTS.json")))
by_seed = {}
for k, r in res.items():
    by_seed.setdefault(r["seed"], []).append(r)
lines = ["# Seeded changes vs checks", "",
         "Each change passes the repository's whole test-suite (verify.json) and breaks the named property.",
         "`DETECTED` = the property's check exits 1 with a replaying counterexample on a scratch worktree with the change applied.", "",
         "| seed | breaks | needs to manifest | quick tier | thorough tier |", "|---|---|---|---|---|"]
det = tot = 0
for seed in sorted(by_seed):
    d = os.path.join(ROOT, "seeded", seed)
    agent = {}
    for f in ("meta.agent.json", "meta.json"):
        p = os.path.join(d, f)
        if os.path.exists(p):
            try:
                agent = json.load(open(p)); break
            except Exception:
                pass
    verify = json.load(open(os.path.join(d, "verify.json"))) if os.path.exists(os.path.join(d, "verify.json")) else None
    runs = by_seed[seed]
    quick = [r for r in runs if r.get("tier", "quick") == "quick"]
    thor = [r for r in runs if r.get("tier") == "thorough"]
    prop = agent.get("property") or seed.split("_")[0]
    needs = (agent.get("needs_to_manifest") or agent.get("kind") or "")
    if isinstance(needs, (list, dict)):
        needs = json.dumps(needs)
    q = "; ".join("%s: %s" % (r["property"], r["verdict"]) for r in quick)
    t = "; ".join("%s: %s" % (r["property"], r["verdict"]) for r in thor) or "-"
    doh = os.path.join(d, "demo_on_head.json")
    neutral = False
    if os.path.exists(doh):
        j = json.load(open(doh))
        neutral = j.get("demo_with_patch_rc") == "0"
    if neutral:
        q += " (no longer manifests on the repaired tree: its demo passes with the patch applied - neutralised by a later fix: commit)"
    else:
        tot += 1
        if any(r["verdict"] == "DETECTED" for r in runs):
            det += 1
    lines.append("| %s | %s | %s | %s | %s |" % (seed, prop, str(needs).replace("|", "/").replace("\n", " ")[:160], q, t))
    meta = {"name": seed, "property": prop, "what": agent.get("what") or agent.get("kind"),
            "needs_to_manifest": needs, "files_changed": agent.get("files_changed"),
            "verified_here": verify, "checks_run": [{k: r[k] for k in ("property", "tier", "verdict", "detail", "repo_head")} for r in runs],
            "how": "tools_verify_seed.sh (clean demo passes, demo fails with patch, full suite passes with patch); "
                   "tools_seedtest.sh <seed> <property> (scratch worktree of /repo HEAD + patch, ./check with VERIF_REPO)"}
    json.dump(meta, open(os.path.join(d, "meta.json"), "w"), indent=1)
lines += ["", "%d of %d seeded changes that manifest on the current tree are detected by at least one registered check." % (det, tot)]
open(os.path.join(ROOT, "seeded", "RESULTS.md"), "w").write("\n".join(lines) + "\n")
print(lines[-1])
