#!/bin/bash
# Run every registered check of a tier on /repo as it is; prints one line per check with wall time and exit code.
cd "$(dirname "$0")"
TIER=${1:-quick}
for id in $(python3 -c "import json;print(' '.join(c['property_id'] for c in json.load(open('MANIFEST.json'))['checks']))"); do
  t0=$(date +%s)
  out=$(./check $id --tier $TIER 2>&1); rc=$?
  echo "$id rc=$rc $(( $(date +%s) - t0 ))s | $(echo "$out" | head -1)"
  [ $rc != 0 ] && echo "$out" | tail -5
done
