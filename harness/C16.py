"""C16 - generator outputs: prompt, in the promised order, safe to abandon.

Real Parallel on parsim (see C01).  S obligations:
  prompt/<cfg>    one batch never completes (symbolic which): every result that does not have to wait for it - all earlier
                  ones (ordered) / all others (unordered) - is delivered by next() without hanging; then close().
  abandon/<cfg>   the consumer pulls j results (symbolic), optionally tries an overlapping call (must raise RuntimeError),
                  then closes or drops the generator under a symbolic schedule; a second call on the same object must
                  return exactly its own results; nothing is submitted after close() returned.
  unordered/<cfg> generator_unordered delivers every result exactly once, in completion order.
"""
from symx import H
from harness import parlib

PROPERTY = "C16"
DESIGN_REF = "DESIGN.md section 4.16"
TECHNIQUE = ("solver-enumerated schedules, pull/close points and stuck batches (CrossHair+z3 selectors) driving the real "
             "generator paths of Parallel on a deterministic two-thread simulator")
LEVEL_TEXT = ("For ordered and unordered generators on 3 backends: every position of a never-completing batch, every "
              "pull count before close/drop, overlapping-call attempt, single pre-emption anywhere and completion picks: "
              "promptness (no waiting for later tasks), order / exactly-once, RuntimeError on overlap, clean reuse.")
LEVEL_NOTE = ("Trusted: CrossHair/z3 for completeness; parsim. Promptness is checked as 'next() returns although a later "
              "batch can never complete'. A generator closed by a foreign thread: joblib's detached abort thread is run by "
              "the harness atomically at a chosen switch point of the caller's timeline (not interleaved statement by "
              "statement). Outside: more than K pre-emptions, wall-clock latency.")
EXPLANATION = "Generator protocol of Parallel explored over schedules, pull points and stuck batches."
STUBS = ["parsim", "warnings cut"]
ASSUMES = ["callbacks serialised on one thread",
           "foreign_close/*: the detached abort thread runs atomically, at a point where the caller holds no lock"]
OUTSIDE = ["statement-level interleaving of the detached abort thread", "more than K pre-emptions"]

_BASE = {}


def _cfg(params, calls, stuck=()):
    return dict(backend=params["backend"], n_workers=2, pre_dispatch=params.get("pre_dispatch", 2),
                batch_size=1, return_as=params["return_as"], calls=calls, stuck_tasks=[(0, s) for s in stuck],
                use_with=params.get("use_with", False), warn_raises=params.get("warn_raises", False))


def prepare(params):
    if "backend" not in params:
        return
    o = parlib.run(_cfg(params, [dict(n_tasks=6), dict(n_tasks=3)]), {})
    _BASE["steps"] = o.steps + 6


def _common(o):
    probs = []
    if o.hang:
        probs.append("hang: %s" % o.hang)
    if o.cb_errors:
        probs.append("callback thread raised: %r" % (o.cb_errors,))
    if o.leftovers:
        probs.append("work of a finished call ran later: %r" % (o.leftovers[:3],))
    return probs


def ob_prompt(stuck: int, pk: int, pos0: int) -> bool:
    """
    pre: 0 <= stuck <= 4
    pre: 0 <= pk <= 3
    pre: -1 <= pos0 <= 600
    post: _
    """
    H.enter()
    steps = _BASE["steps"]
    H.assume(pos0 <= steps)
    st, pkv, p0 = H.select(stuck, 0, 4), H.select(pk, 0, 3), H.select_bisect(pos0, -1, steps)
    ordered = H.P("return_as") == "generator"
    with H.native():
        n = 5
        pulls = st if ordered else "available"
        calls = [dict(n_tasks=n, pulls=pulls, end="close")]
        pre = [(p0, 0)] if p0 >= 0 else []
        o = parlib.run(_cfg(H.PARAMS, calls, stuck=(st,)), dict(preempt=pre, picks=[pkv % 2, pkv // 2]))
        probs = _common(o)
        if o.calls:
            rec = o.calls[0]
            got = rec["result"]
            if rec["exc"] is not None:
                probs.append("raised %r" % (rec["exc"],))
            elif ordered and got != [(0, i) for i in range(st)]:
                probs.append("task %d never completes: pulled %r, expected the %d earlier results" % (st, got, st))
            elif not ordered:
                ran = sorted(x for x in o.exec_log if x[0] == 0)
                if sorted(got) != ran or any((0, i) not in got for i in range(st)):
                    probs.append("task %d never completes: delivered %r, but %r had completed" % (st, got, ran))
        else:
            probs.append("did not finish")
        for m in probs:
            H.note("stuck=%d preempt=%r: %s" % (st, pre, m))
        return H.verdict(not probs)


def ob_prompt_producer(j: int, pos0: int) -> bool:
    """
    pre: 0 <= j <= 4
    pre: -1 <= pos0 <= 600
    post: _
    """
    H.enter()
    # The *input producer* is not ready with item j (and will not be until the consumer has moved on - a pipeline with
    # feedback, a queue the consumer fills): results that have completed must still be delivered.
    steps = _BASE["steps"]
    H.assume(pos0 <= steps)
    jj, p0 = H.select(j, 0, 4), H.select_bisect(pos0, -1, steps)
    # item j >= pre_dispatch is taken by the completion callback, which holds Parallel's lock meanwhile: recorded finding
    H.known("KF-C16-producer-blocks-delivery", jj >= 2)
    with H.native():
        calls = [dict(n_tasks=6, slow_at=jj, slow_kind="forever", pulls="available", end="close")]
        pre = [(p0, 0)] if p0 >= 0 else []
        o = parlib.run(_cfg(H.PARAMS, calls), dict(preempt=pre, picks=[]))
        probs = _common(o)
        if o.calls:
            rec = o.calls[0]
            pulls_at = rec.get("pull_events", [])
            for e in o.iter_log:
                if e[0] == "consumer-blocked":
                    delivered = len([x for x in pulls_at if x <= e[3]])
                    if e[4] - delivered > 0:
                        probs.append("the consumer is blocked on Parallel's lock - held by the completion callback that waits "
                                     "for input item %d - while %d finished result(s) are undelivered" % (e[2], e[4] - delivered))
                        break
        else:
            probs.append("did not finish")
        for m in probs:
            H.note("producer not ready with item %d, preempt=%r: %s" % (jj, pre, m))
        return H.verdict(not probs)


def ob_abandon(pulls: int, pos0: int, pk: int) -> bool:
    """
    pre: 0 <= pulls <= 3
    pre: -1 <= pos0 <= 600
    pre: 0 <= pk <= 1
    post: _
    """
    H.enter()
    steps = _BASE["steps"]
    H.assume(pos0 <= steps)
    pl = H.P("pull_counts")[H.select(pulls, 0, 3)]
    en = H.P("end")
    p0, pkv = H.select_bisect(pos0, -1, steps), H.select(pk, 0, 1)
    ov = True                       # an overlapping call is always attempted while the run is unfinished
    ordered = H.P("return_as") == "generator"
    with H.native():
        n = 6
        calls = [dict(n_tasks=n, pulls=pl, end=["close", "drop", "exhaust"][en], overlap=ov,
                      slow_at=H.P("slow_at")), dict(n_tasks=3)]
        pre = [(p0, 0)] if p0 >= 0 else []
        o = parlib.run(_cfg(H.PARAMS, calls), dict(preempt=pre, picks=[pkv]))
        probs = _common(o)
        if len(o.calls) == 2:
            r0, r1 = o.calls
            if r0["exc"] is not None:
                probs.append("first call raised %r" % (r0["exc"],))
            else:
                got = r0["result"]
                pulled_before_overlap = pl
                want = [(0, i) for i in range(min(pl, n) if en < 2 else n)]
                if en == 2:
                    pl = n
                if ordered and got != want:
                    probs.append("pulled %r, expected %r" % (got, want))
                if not ordered and (len(got) != min(pl, n) or len(set(got)) != len(got) or
                                    any(g not in [(0, i) for i in range(n)] for g in got)):
                    probs.append("pulled %r: not %d distinct results of this call" % (got, min(pl, n)))
                if ov and pulled_before_overlap < n and r0.get("overlap") != "RuntimeError":
                    probs.append("a call during the unfinished run gave %r instead of RuntimeError" % (r0.get("overlap"),))
            if r1["exc"] is not None:
                probs.append("the object is not reusable: second call raised %r" % (r1["exc"],))
            elif (list(r1["result"]) if ordered else sorted(r1["result"])) != [(1, i) for i in range(3)]:
                probs.append("second call returned %r" % (r1["result"],))
            if sorted(x for x in o.exec_log if x[0] == 1) != [(1, i) for i in range(3)]:
                probs.append("second call executed %r" % ([x for x in o.exec_log if x[0] == 1],))
            if len(set(o.exec_log)) != len(o.exec_log):
                probs.append("a task ran twice: %r" % (o.exec_log,))
        else:
            probs.append("only %d of 2 calls finished" % len(o.calls))
        for m in probs:
            H.note("pulls=%d end=%s overlap=%r preempt=%r: %s" % (pl, ["close", "drop", "exhaust"][en], ov, pre, m))
        return H.verdict(not probs)


def ob_foreign_close(pulls: int, dk: int, pos0: int) -> bool:
    """
    pre: 0 <= pulls <= 3
    pre: 0 <= dk <= 9
    pre: -1 <= pos0 <= 600
    post: _
    """
    H.enter()
    # The generator is closed (or collected) by a thread that did not call Parallel: joblib detaches the abort to a
    # thread of its own (_GeneratorExitThread).  dk = -1: that thread runs before anything else happens; dk = k: it
    # only gets the CPU k switch points later - possibly in the middle of the next call.
    steps = _BASE["steps"]
    H.assume(pos0 <= steps)
    H.assume(pos0 == -1 or pos0 % 4 == 0)
    pl = [0, 1, 3, 5][H.select(pulls, 0, 3)]
    dkv, p0 = [-1, 0, 2, 4, 8, 12, 16, 24, 32, 40][H.select(dk, 0, 9)], H.select_bisect(pos0, -1, steps)
    ordered = H.P("return_as") == "generator"
    with H.native():
        n = 6
        calls = [dict(n_tasks=n, pulls=pl, end="close_other_thread", deferred_at=None if dkv < 0 else dkv),
                 dict(n_tasks=3), dict(n_tasks=2, run_deferred_before=True)]
        pre = [(p0, 0)] if p0 >= 0 else []
        o = parlib.run(_cfg(H.PARAMS, calls), dict(preempt=pre, picks=[]))
        probs = _common(o)
        derr = [e for e in o.detached_errors if not (H.P("warn_raises", False) and e.startswith("UserWarning"))]
        if derr:
            probs.append("the detached abort thread raised: %r" % (derr,))
        if len(o.calls) == 3:
            r0, r1, r2 = o.calls
            if r0["exc"] is not None:
                probs.append("first call raised %r" % (r0["exc"],))
            elif ordered and r0["result"] != [(0, i) for i in range(pl)]:
                probs.append("pulled %r" % (r0["result"],))
            if r0.get("detached_threads", 0) == 0 and "close_raised" not in r0:
                probs.append("no detached abort thread was started")
            # closing stops further dispatch: the input of the closed run is not consumed any further
            if r0["tasks"].i > r0["taken_total"] + 2:          # (a look-ahead chunk in progress may complete)
                probs.append("the input of the closed run went from %d to %d items taken after close() returned" % (
                    r0["taken_total"], r0["tasks"].i))
            want1 = [(1, i) for i in range(3)]
            if r1["exc"] is not None:
                busy = isinstance(r1["exc"], RuntimeError) and "already running" in str(r1["exc"])
                if not (busy and r1.get("deferred_pending_at_start")):
                    probs.append("second call raised %r" % (r1["exc"],))
            elif (list(r1["result"]) if ordered else sorted(r1["result"])) != want1:
                probs.append("second call (started while the detached abort of the first was %s) returned %r" % (
                    "pending" if r1.get("deferred_pending_at_start") else "over", r1["result"]))
            if r1["exc"] is None and sorted(x for x in o.exec_log if x[0] == 1) != want1:
                probs.append("second call executed %r" % ([x for x in o.exec_log if x[0] == 1],))
            if r2["exc"] is not None:
                probs.append("the object is not reusable after the detached abort has finished: %r" % (r2["exc"],))
            elif (list(r2["result"]) if ordered else sorted(r2["result"])) != [(2, i) for i in range(2)]:
                probs.append("third call returned %r" % (r2["result"],))
        else:
            probs.append("only %d of 3 calls finished" % len(o.calls))
        for m in probs:
            H.note("pulls=%d detached thread delayed by %r switch points, preempt=%r: %s" % (pl, None if dkv < 0 else dkv, pre, m))
        return H.verdict(not probs)


def ob_leave_with(pulls: int, pos0: int, pk: int) -> bool:
    """
    pre: 0 <= pulls <= 3
    pre: -1 <= pos0 <= 600
    pre: 0 <= pk <= 1
    post: _
    """
    H.enter()
    # `with Parallel(return_as=generator) as p:` is left while the generator is still referenced and unexhausted:
    # the run is unfinished, so calling p again must raise RuntimeError instead of mixing the two runs; after the
    # generator is closed the object is reusable.
    steps = _BASE["steps"]
    H.assume(pos0 <= steps)
    pl, p0, pkv = [0, 1, 2, 4][H.select(pulls, 0, 3)], H.select_bisect(pos0, -1, steps), H.select(pk, 0, 1)
    ordered = H.P("return_as") == "generator"
    with H.native():
        seen = {}

        def script(sim, p, out, mk):
            with p:
                g1 = p(mk(0, 6))
                it = iter(g1)
                seen["got"] = [next(it) for _ in range(pl)]
            try:
                g2 = p(mk(1, 3))
                seen["second"] = "accepted"
                try:
                    seen["second_results"] = list(g2)
                except BaseException as e:
                    seen["second_results"] = "raised %s" % type(e).__name__
            except RuntimeError:
                seen["second"] = "RuntimeError"
            try:
                seen["rest"] = list(it)
            except BaseException as e:
                seen["rest"] = "raised %s: %s" % (type(e).__name__, e)
            g1.close()
            del it, g1
            r3 = list(p(mk(2, 3)))
            seen["third"] = r3
            out.calls.append({"call": 0, "result": seen["got"], "exc": None})
        cfg = _cfg(H.PARAMS, [dict(n_tasks=6), dict(n_tasks=3), dict(n_tasks=3)])
        cfg["hooks"] = {"script": script}
        pre = [(p0, 0)] if p0 >= 0 else []
        o = parlib.run(cfg, dict(preempt=pre, picks=[pkv]))
        probs = _common(o)
        want = [(0, i) for i in range(pl)]
        if "got" not in seen:
            probs.append("first run did not start")
        elif (seen["got"] != want) if ordered else (len(set(seen["got"])) != pl):
            probs.append("pulled %r" % (seen["got"],))
        if seen.get("second") != "RuntimeError":
            probs.append("call after leaving the with block, generator still alive: %s (results %r, old generator then gave %r)" % (
                seen.get("second"), seen.get("second_results"), seen.get("rest")))
        third = seen.get("third")
        if third is None or (third if ordered else sorted(third)) != [(2, i) for i in range(3)]:
            probs.append("after closing the old generator the next call returned %r" % (third,))
        for m in probs:
            H.note("pulls=%d preempt=%r: %s" % (pl, pre, m))
        return H.verdict(not probs)


def ob_unordered(n_tasks: int, pos0: int, pk: int) -> bool:
    """
    pre: 0 <= n_tasks <= 2
    pre: -1 <= pos0 <= 600
    pre: 0 <= pk <= 3
    post: _
    """
    H.enter()
    steps = _BASE["steps"]
    H.assume(pos0 <= steps)
    n = [1, 3, 5][H.select(n_tasks, 0, 2)]
    p0, pkv = H.select_bisect(pos0, -1, steps), H.select(pk, 0, 3)
    with H.native():
        pre = [(p0, 0)] if p0 >= 0 else []
        o = parlib.run(_cfg(H.PARAMS, [dict(n_tasks=n)]), dict(preempt=pre, picks=[pkv % 2, pkv // 2]))
        probs = _common(o)
        if o.calls and o.calls[0]["exc"] is None:
            got = o.calls[0]["result"]
            if sorted(got) != [(0, i) for i in range(n)]:
                probs.append("delivered %r" % (got,))
            # completion order: a result is never delivered before a result that completed earlier
            done_order = [e[1] for e in o.sim.events if e[0] == "complete"]
            # batch seq == task index here (batch_size 1, one call)
            pos = {s: k for k, s in enumerate(done_order)}
            idx = [pos.get(i, 99) for (_, i) in got]
            if idx != sorted(idx):
                probs.append("delivered %r but completion order was %r" % (got, done_order))
        else:
            probs.append("call failed: %r" % (o.calls and o.calls[0]["exc"],))
        for m in probs:
            H.note("n=%d preempt=%r: %s" % (n, pre, m))
        return H.verdict(not probs)


def validate():
    rows = []
    o = parlib.run(_cfg({"backend": "threading", "return_as": "generator"},
                        [dict(n_tasks=5, pulls=2, end="close", overlap=True), dict(n_tasks=3)]), {})
    rows.append(("baseline abandon/reuse", _common(o) == [] and o.calls[0]["result"] == [(0, 0), (0, 1)] and
                 o.calls[0]["overlap"] == "RuntimeError" and o.calls[1]["result"] == [(1, 0), (1, 1), (1, 2)],
                 str([c["result"] for c in o.calls])))
    return rows


def obligations(tier, seed):
    obs = []
    for be in ("threading", "loky", "stub_cb"):
        for ra in ("generator", "generator_unordered"):
            obs.append({"name": "prompt/%s/%s" % (be, ra), "fn": "ob_prompt", "mode": "S",
                        "params": {"backend": be, "return_as": ra}, "timeout": 600,
                        "bounds": "5 tasks, batch 0..4 never completes, one pre-emption anywhere, 2x2 picks"})
            for uw in ((False,) if tier == "quick" else (False, True)):
                for en in (0, 1, 2):
                    obs.append({"name": "abandon/%s/%s/with=%s/%s" % (be, ra, uw, ["close", "drop", "resume"][en]), "fn": "ob_abandon",
                                "mode": "S", "params": {"backend": be, "return_as": ra, "use_with": uw, "end": en,
                                                        "pull_counts": [0, 1, 3, 6] if tier == "quick" else [0, 2, 4, 5]},
                                "timeout": 900,
                                "bounds": "6 tasks, pulls in %s, then %s; overlapping call attempted; one pre-emption anywhere, "
                                          "2 picks; then a 3-task call" % ([0, 1, 3, 6], ["close()", "drop", "keep consuming to the end"][en])})
        # a lazy input producer that is slow at its third item: the callback thread sits inside the input iterator
        # (inside dispatch_one_batch) while the consumer closes / drops the generator
        obs.append({"name": "abandon_slow_input/%s" % be, "fn": "ob_abandon", "mode": "S",
                    "params": {"backend": be, "return_as": "generator", "use_with": False, "end": 0, "slow_at": 2,
                               "pull_counts": [0, 1, 2, 3]}, "timeout": 900,
                    "bounds": "6 tasks, the input iterator blocks at item 2 until the run is being aborted; 0..3 pulls then "
                              "close(); one pre-emption anywhere; then a 3-task call"})
        obs.append({"name": "leave_with/%s" % be, "fn": "ob_leave_with", "mode": "S",
                    "params": {"backend": be, "return_as": "generator"}, "timeout": 600,
                    "bounds": "with-block left after 0/1/2/4 pulls of 6 with the generator alive; second call must raise; "
                              "close; third call clean; one pre-emption anywhere"})
        obs.append({"name": "unordered/%s" % be, "fn": "ob_unordered", "mode": "S",
                    "params": {"backend": be, "return_as": "generator_unordered", "pre_dispatch": 3}, "timeout": 600,
                    "bounds": "1/3/5 tasks, one pre-emption anywhere, 2x2 picks"})
    for be, ra, uw, wr in [("threading", "generator", False, False), ("loky", "generator_unordered", True, True),
                           ("stub_cb", "generator", True, False)]:
        obs.append({"name": "foreign_close/%s/%s/with=%s/werror=%s" % (be, ra, uw, wr), "fn": "ob_foreign_close", "mode": "S",
                    "params": {"backend": be, "return_as": ra, "use_with": uw, "warn_raises": wr}, "timeout": 900,
                    "bounds": "6 tasks, 0/1/3/5 pulls, then close() from a foreign thread; joblib's detached abort thread gets "
                              "the CPU at once or 0..40 switch points later (in the caller's timeline, lock free); a 3-task "
                              "call meanwhile, a 2-task call afterwards; one pre-emption at every 4th switch point"})
    for be, ra in [("threading", "generator"), ("loky", "generator_unordered")]:
        obs.append({"name": "prompt_producer/%s/%s" % (be, ra), "fn": "ob_prompt_producer", "mode": "S",
                    "kf": ["KF-C16-producer-blocks-delivery"], "params": {"backend": be, "return_as": ra}, "timeout": 600,
                    "bounds": "6 tasks, the input producer is not ready with item 0..4 until the consumer has moved on; "
                              "one pre-emption anywhere"})
    return obs
