"""C09 - Parallel consumes its input lazily, boundedly and from one thread at a time.

Real Parallel on parsim (see C01) with an instrumented input iterator (items taken, by which simulated thread,
re-entrancy flag) and an invariant hook evaluated at *every* switch point of every explored schedule.
  bound/<config> (S)   symbolic schedule (pre-emption point, completion picks) and input length beyond every
                       look-ahead boundary.  Invariants: taken - completed <= pre_dispatch + (1+K)*n_jobs*batch_size (K = pre-emptions);
                       batches in flight <= batches dispatched by the initial pre-dispatch; the iterator is never
                       entered by two threads at once; pre_dispatch='all' has taken everything when dispatch returns.
  stop/<config> (S)    a task fails / the output generator is closed at a symbolic point: no dispatch_one_batch that
                       *starts* after the abort flag is up takes an item; after close() returns nothing is taken.
  expr (T)             _utils.eval_ on AST shapes over {+,-,*,//,%,unary -} with symbolic integer leaves vs Python's own
                       arithmetic; non-arithmetic node kinds are rejected.
  forms (S)            pre_dispatch forms 'n_jobs', '2*n_jobs', '1.5*n_jobs', '3', 7, 'all' x n_jobs 1..4 through
                       eval_expr (ast.parse is a C boundary: case split) give the documented amount.
"""
import ast

from symx import H
from harness import parlib

PROPERTY = "C09"
DESIGN_REF = "DESIGN.md section 4.9"
TECHNIQUE = ("solver-enumerated schedules (CrossHair+z3 selectors) on a deterministic two-thread simulator with "
             "invariants checked at every switch point; eval_ decided symbolically on integer leaves")
LEVEL_TEXT = ("At every switch point of every schedule with <=K pre-emptions and any completion picks, for inputs longer "
              "than every look-ahead boundary: consumption stays within pre_dispatch + n_jobs*batch_size of completion, "
              "in-flight batches never exceed the pre-dispatched number, next() is never re-entered, 'all' is taken up "
              "front, and nothing is taken after failure/close; pre_dispatch expressions evaluate as Python does.")
LEVEL_NOTE = ("Trusted: CrossHair/z3; parsim (switch points at lock ops, clock, pool entry points, iterator, task start; "
              "one callback thread). Outside: pre-emptions beyond K, batch_size='auto' growth (bound stated for fixed "
              "batch sizes), float-valued expressions other than the documented '1.5*n_jobs'.")
EXPLANATION = "Consumption invariants evaluated at every switch point of solver-enumerated schedules."
STUBS = ["parsim", "instrumented iterator"]
ASSUMES = ["fixed batch_size", "callbacks serialised on one thread"]
OUTSIDE = ["batch_size='auto'", "more than K pre-emptions"]

_BASE = {}


def _cfg(params, n, extra=None):
    c = dict(n_tasks=n)
    c.update(extra or {})
    return dict(backend=params["backend"], n_workers=params.get("n_workers", 2), pre_dispatch=params.get("pre_dispatch", 2),
                batch_size=params.get("batch_size", 1), return_as=params.get("return_as", "list"), calls=[c],
                hooks={"setup": _setup}, use_with=params.get("use_with", False), warn_raises=params.get("warn_raises", False))


def _amount(pre, n_jobs):
    if pre == "all":
        return None
    if isinstance(pre, str):
        return max(int(eval(pre.replace("n_jobs", str(n_jobs)))), 1)
    return max(int(pre), 1)


def _setup(sim, p, out):
    """Install the invariant hook and the dispatch_one_batch entry recorder."""
    import joblib.parallel as jp
    out.violations = []
    out.start_batches = None
    st = {"abort_seen_at_entry": False}
    orig_start = p._start
    orig_d1b = p.dispatch_one_batch

    def _start(iterator, pre_dispatch):
        r = orig_start(iterator, pre_dispatch)
        out.start_batches = sim.n_submitted
        out.aborting_at_start = bool(p._aborting)
        out.taken_at_start = len([e for e in out.iter_log if e[0] == "take"])
        out.taken_by_main_at_start = len([e for e in out.iter_log if e[0] == "take" and e[3] == "main"])
        return r

    def d1b(iterator):
        entered_aborting = bool(p._aborting)
        entered_after_failure = st["failure_registered"]
        before = len(out.iter_log)
        try:
            return orig_d1b(iterator)
        finally:
            took = [e for e in out.iter_log[before:] if e[0] == "take"]
            if entered_aborting and took:
                out.violations.append("dispatch_one_batch entered while aborting took %d items" % len(took))
            elif entered_after_failure and took:
                out.violations.append("dispatch_one_batch entered after a task's failure had been registered by its "
                                      "completion callback took %d items" % len(took))
    p._start = _start
    p.dispatch_one_batch = d1b
    # "once a task has failed", independently of joblib's own flags: the completion callback of a failed batch has returned
    st["failure_registered"] = False
    if not hasattr(jp.BatchCompletionCallBack, "_c09_orig_call"):
        jp.BatchCompletionCallBack._c09_orig_call = jp.BatchCompletionCallBack.__call__

        def _cb_call(self, *a, **k):
            try:
                return jp.BatchCompletionCallBack._c09_orig_call(self, *a, **k)
            finally:
                hook = getattr(self.parallel, "_c09_failure_hook", None)
                if hook is not None and getattr(self, "status", None) == jp.TASK_ERROR:
                    hook()
        jp.BatchCompletionCallBack.__call__ = _cb_call

    def _mark():
        st["failure_registered"] = True
    p._c09_failure_hook = _mark
    nj, bs = out_cfg["n_workers"], out_cfg["batch_size"]
    amount = _amount(out_cfg["pre_dispatch"], nj)

    def inv(sim_, tag):
        taken = sum(1 for e in out.iter_log if e[0] == "take")
        completed = p.n_completed_tasks if hasattr(p, "n_completed_tasks") else 0
        if amount is not None:
            # every pre-emption of the caller inside its pre-dispatch loop lets one more look-ahead slice
            # (n_jobs*batch_size items) through: the bound is stated for the schedule's pre-emption budget
            bound = amount + (1 + len(sim_.preempt)) * nj * bs
            if taken - completed > bound and len(out.violations) < 3:
                out.violations.append("taken %d - completed %d > pre_dispatch %d + n_jobs*batch %d (at %s)" % (
                    taken, completed, amount, nj * bs, tag))
        if out.start_batches is not None:
            in_flight = sim_.n_submitted - sim_.n_tasks_finished - getattr(sim_, 'n_dropped', 0)
            if in_flight > max(out.start_batches, 1) and len(out.violations) < 3:
                out.violations.append("%d batches in flight > %d pre-dispatched (at %s)" % (
                    in_flight, out.start_batches, tag))
    sim.on_switch_point = inv


out_cfg = {}


def _run(params, n, sched, extra=None):
    cfg = _cfg(params, n, extra)
    out_cfg.clear()
    out_cfg.update(cfg)
    return parlib.run(cfg, sched)


def prepare(params):
    if "backend" not in params:
        return
    o = _run(params, params.get("n_max", 12), {})
    _BASE["steps"] = o.steps + 6


def _problems(o, n, expect_exc=None):
    probs = list(getattr(o, "violations", []))
    if o.hang:
        probs.append("hang: %s" % o.hang)
    if o.cb_errors:
        probs.append("callback thread raised: %r" % (o.cb_errors,))
    for e in o.iter_log:
        if e[0] == "REENTRANT":
            probs.append("input iterator entered from two threads at once (item %d)" % e[2])
    if out_cfg.get("pre_dispatch") == "all" and getattr(o, "taken_at_start", n) != n and not getattr(o, "aborting_at_start", False):
        probs.append("pre_dispatch='all' had taken %d of %d items when dispatch returned" % (o.taken_at_start, n))
    return probs


def ob_bound(ni: int, pos0: int, pk: int) -> bool:
    """
    pre: 0 <= ni <= 3
    pre: -1 <= pos0 <= 700
    pre: 0 <= pk <= 3
    post: _
    """
    H.enter()
    counts = H.P("lengths")
    steps = _BASE["steps"]
    H.assume(ni < len(counts) and pos0 <= steps)
    n = counts[H.select(ni, 0, len(counts) - 1)]
    p0 = H.select_bisect(pos0, -1, steps)
    pkv = H.select(pk, 0, 3)
    with H.native():
        pre = [(p0, 0)] if p0 >= 0 else []
        o = _run(H.PARAMS, n, dict(preempt=pre, picks=[pkv % 2, pkv // 2]))
        probs = _problems(o, n)
        if o.calls and o.calls[0]["exc"] is None and sorted(o.calls[0]["result"]) != [(0, i) for i in range(n)]:
            probs.append("wrong results %r" % (o.calls[0]["result"],))
        for m in probs:
            H.note("n=%d preempt=%r picks=%r: %s" % (n, pre, [pkv % 2, pkv // 2], m))
        return H.verdict(not probs)


def ob_stop(f: int, pos0: int, pk: int) -> bool:
    """
    pre: 0 <= f <= 7
    pre: -1 <= pos0 <= 700
    pre: 0 <= pk <= 1
    post: _
    """
    H.enter()
    steps = _BASE["steps"]
    H.assume(pos0 <= steps)
    ff = H.select(f, 0, 7)
    p0 = H.select_bisect(pos0, -1, steps)
    pkv = H.select(pk, 0, 1)
    mode = H.P("mode")
    with H.native():
        pre = [(p0, 0)] if p0 >= 0 else []
        n = H.P("n_max", 12)
        if mode == "fail":
            o = _run(H.PARAMS, n, dict(preempt=pre, picks=[pkv]), {"fail_at": ff})
        else:
            o = _run(H.PARAMS, n, dict(preempt=pre, picks=[pkv]), {"pulls": ff % 5, "end": "close" if mode == "close" else "drop"})
        probs = _problems(o, n)
        if o.calls:
            rec = o.calls[0]
            if mode == "fail" and not isinstance(rec["exc"], parlib.TaskError):
                probs.append("expected the task's error, got %r" % (rec["exc"],))
            if mode != "fail":
                taken_after = [e for e in o.iter_log if e[0] == "take" and e[4] > rec["events_at_end"]]
                if rec.get("submitted_after_end") is not None:
                    late = o.sim.n_submitted - rec["submitted_after_end"]
                    if late:
                        probs.append("%d batches submitted after the generator was closed" % late)
                after = sum(1 for e in o.iter_log if e[0] == "take") - rec["taken_total"]
                if after:
                    probs.append("%d items taken after close() returned" % after)
        for m in probs:
            H.note("%s at %d preempt=%r: %s" % (mode, ff, pre, m))
        return H.verdict(not probs)


SHAPES = ["a+b", "a-b", "a*b", "a//b", "a%b", "-a", "(a+b)*c", "a-(b*c)", "(a//b)+c", "-(a%b)", "a*(b-c)", "(a+b)//c"]


def ob_expr(a: int, b: int, c: int) -> bool:
    """
    pre: -12 <= a <= 12 and -12 <= b <= 12 and -12 <= c <= 12
    post: _
    """
    H.enter()
    from joblib._utils import eval_
    sh = H.P("shape")
    tree = ast.parse(SHAPES[sh], mode="eval").body

    class Leaf(ast.NodeTransformer):
        def visit_Name(self, node):
            return ast.Constant({"a": a, "b": b, "c": c}[node.id])     # symbolic leaves
    tree = Leaf().visit(tree)
    try:
        want = eval(SHAPES[sh], {}, {"a": a, "b": b, "c": c})
    except ZeroDivisionError:
        try:
            eval_(tree)
        except ZeroDivisionError:
            return H.verdict(True)
        return H.verdict(False, "no ZeroDivisionError for %s" % SHAPES[sh])
    got = eval_(tree)
    return H.verdict(got == want, "%s with a=%r b=%r c=%r: eval_ %r, Python %r" % (SHAPES[sh], a, b, c, got, want))


BAD_NODES = ["n_jobs", "f(1)", "a.b", "a[0]", "[1]", "1 if 2 else 3", "lambda: 1", "1 < 2", "1 and 2", "(1, 2)"]


def ob_reject(k: int) -> bool:
    """
    pre: 0 <= k <= 9
    post: _
    """
    H.enter()
    from joblib._utils import eval_expr
    kk = H.select(k, 0, 9)
    with H.native():
        try:
            r = eval_expr(BAD_NODES[kk])
        except ValueError:
            return H.verdict(True)
        except Exception as e:
            return H.verdict(False, "%s raised %s instead of ValueError" % (BAD_NODES[kk], type(e).__name__))
        return H.verdict(False, "%s evaluated to %r" % (BAD_NODES[kk], r))


FORMS = ["n_jobs", "2*n_jobs", "1.5*n_jobs", "3", 7, "2 * n_jobs", "n_jobs + 1", 3.5, "0.7*n_jobs"]   # fractional amounts truncate


def ob_forms(fi: int, nj: int, pos0: int) -> bool:
    """
    pre: 0 <= fi <= 8
    pre: 2 <= nj <= 5
    pre: -1 <= pos0 <= 60
    post: _
    """
    H.enter()
    H.assume(pos0 == -1 or pos0 % 4 == 0)
    f, n_jobs, p0 = FORMS[H.select(fi, 0, 8)], H.select(nj, 2, 5), H.select_bisect(pos0, -1, 60)
    with H.native():
        params = {"backend": "threading", "n_workers": n_jobs, "pre_dispatch": f, "batch_size": 1}
        pre = [(p0, 0)] if p0 >= 0 else []
        o = _run(params, 4 * n_jobs + 3, dict(preempt=pre, picks=[]))
        probs = _problems(o, 4 * n_jobs + 3)
        want = _amount(f, n_jobs)
        got = getattr(o, "taken_by_main_at_start", None)
        if got != want:
            probs.append("pre_dispatch=%r n_jobs=%d: %r items taken by the caller's initial dispatch, expected %d" % (
                f, n_jobs, got, want))
        for m in probs:
            H.note(m)
        return H.verdict(not probs)


def validate():
    rows = []
    o = _run({"backend": "threading", "pre_dispatch": 2}, 9, {})
    rows.append(("baseline: invariants hold on the unchanged tree", _problems(o, 9) == [], str(_problems(o, 9))))
    rows.append(("invariant hook really ran", o.start_batches is not None and o.steps > 20, str(o.start_batches)))
    from joblib._utils import eval_expr
    rows.append(("upstream doctest values", eval_expr("2*6") == 12 and eval_expr("2**6") == 64, ""))
    return rows


def obligations(tier, seed):
    obs = []
    blocks = [("threading", "list", 2, 1), ("loky", "generator", 3, 1), ("stub_cb", "list", "2*n_jobs", 2),
              ("multiprocessing", "list", 1, 1), ("stub_legacy", "list", 2, 1), ("threading", "list", "all", 1),
              ("loky", "generator_unordered", 2, 2)]
    for be, ra, pd, bs in blocks:
        obs.append({"name": "bound/%s/%s/pre=%s/batch=%s" % (be, ra, pd, bs), "fn": "ob_bound", "mode": "S",
                    "params": {"backend": be, "return_as": ra, "pre_dispatch": pd, "batch_size": bs,
                               "lengths": [3, 9, 14] if tier == "quick" else [1, 7, 12, 20], "n_max": 14},
                    "timeout": 600 if tier == "quick" else 2400,
                    "bounds": "input lengths below/above every look-ahead boundary, one pre-emption anywhere, 2x2 picks"})
    for be, ra, mode in [("threading", "list", "fail"), ("loky", "list", "fail"), ("stub_cb", "list", "fail"),
                         ("threading", "generator", "close"), ("loky", "generator", "close"),
                         ("threading", "generator", "drop"), ("stub_legacy", "list", "fail")]:
        obs.append({"name": "stop/%s/%s/%s" % (mode, be, ra), "fn": "ob_stop", "mode": "S",
                    "params": {"backend": be, "return_as": ra, "pre_dispatch": 2, "batch_size": 1, "mode": mode,
                               "n_max": 12},
                    "timeout": 600, "bounds": "12 items; failing task / close point 0..7; one pre-emption anywhere; 2 picks"})
    obs.append({"name": "stop/close_warnings_as_errors/threading", "fn": "ob_stop", "mode": "S",
                "params": {"backend": "threading", "return_as": "generator", "pre_dispatch": 2, "batch_size": 1, "mode": "close",
                           "n_max": 12, "use_with": True, "warn_raises": True}, "timeout": 600,
                "bounds": "as stop/close inside a with block, warnings raised as errors (python -W error)"})
    obs.append({"name": "stop/fail/threading/list/pre=all", "fn": "ob_stop", "mode": "S",
                "params": {"backend": "threading", "return_as": "list", "pre_dispatch": "all", "batch_size": 1,
                           "mode": "fail", "n_max": 12}, "timeout": 600,
                "bounds": "pre_dispatch='all', 12 items, failing task 0..7, one pre-emption anywhere"})
    for sh in range(len(SHAPES)):
        obs.append({"name": "expr/%s" % SHAPES[sh].replace("/", "d"), "fn": "ob_expr", "mode": "T", "params": {"shape": sh},
                    "timeout": 150, "bounds": "AST of %s with symbolic integer leaves in [-12,12]" % SHAPES[sh]})
    obs.append({"name": "reject", "fn": "ob_reject", "mode": "S", "timeout": 60,
                "bounds": "10 non-arithmetic expressions must raise ValueError"})
    obs.append({"name": "forms", "fn": "ob_forms", "mode": "S", "timeout": 300,
                "bounds": "9 pre_dispatch forms (incl. fractional ones) x n_jobs 2..5 x pre-emption at every 4th of the first 60 switch points"})
    return obs
