"""C12 - a cached function never returns a value computed by different source code.

Function versions v0, v1, v2 of one name live as source text on the model file system; defining version k rewrites the
module file and executes it (as an edit + reload does), older function objects stay callable.  The real get_func_code
reads the source back through the patched open().
  hist/<flavour>/<first> (S)  histories of up to L operations from {define version k, call live definition j with
                              argument a, start a fresh process}: every call returns the value tagged with the version
                              of the function object that was called.
  persist (S)                 unchanged code keeps its cache across fresh processes (the body does not run again).
  lambda (S)                  two different lambdas on the same line warn and still return their own values.
"""
from symx import H
from harness import memlib
from symx.stubs import fakefs

PROPERTY = "C12"
DESIGN_REF = "DESIGN.md section 4.12"
TECHNIQUE = ("solver-enumerated define/call/session histories (CrossHair+z3 selectors) through the real Memory code-"
             "change detection (func_code.py comparison, in-memory function hashes) on a model file system")
LEVEL_TEXT = ("Every history of up to 4 (quick) / 5 (thorough) operations over 3 versions of a same-named function, "
              "2 arguments and fresh-process boundaries, for module-level and nested definitions: each call returns the "
              "value of the code of the object that was called; unchanged code is served from cache across processes.")
LEVEL_NOTE = ("Trusted: CrossHair/z3 for completeness of the enumeration; the file-system model. A 'definition change' is "
              "an edit of the module file followed by re-execution. Outside: code objects swapped in place "
              "(func.__code__ = ...), notebooks' per-cell pseudo files, histories longer than the bound.")
EXPLANATION = "Histories of redefinitions and calls vs the tag of the called code."
STUBS = ["fakefs", "fake clock", "warnings/traceback/pydoc cuts"]
ASSUMES = ["a redefinition rewrites the source file at the same path (edit) or lives in its own source unit (cells)"]
OUTSIDE = ["more than 3 versions / longer histories", "source files changed without re-executing them"]

PREFIX_VERSIONS = [
    "LOG = []\ndef f(a):\n    LOG.append(0)\n    t = ('x', a)\n",                                   # forgot the return
    "LOG = []\ndef f(a):\n    LOG.append(0)\n    t = ('x', a)\n    return t\n",                     # v0 + one more line
    "LOG = []\ndef f(a):\n    LOG.append(0)\n    t = ('x', a)\n    return t\n    return None\n",    # v1 + one more line
]

TEMPLATES = {
    "module": "LOG = []\ndef f(a):\n    LOG.append(%(k)d)\n    return ('v%(k)d', a%(pad)s)\n",
    "nested": "LOG = []\ndef make():\n    def f(a):\n        LOG.append(%(k)d)\n        return ('v%(k)d', a%(pad)s)\n    return f\nf = make()\n",
    "shifted": "LOG = []\n%(blank)sdef f(a):\n    LOG.append(%(k)d)\n    return ('v%(k)d', a)\n",
}


def _src(flavour, k):
    if flavour == "prefix":
        return PREFIX_VERSIONS[k]
    # versions differ in the body (module, nested) or only in position + tag (shifted: same length, moved down)
    return TEMPLATES[flavour] % {"k": k, "pad": ["", " ", "  "][k], "blank": "\n" * k}


def _define_cell(fs, modname, unit, src):
    import sys
    import types
    path = "%s/%s.py" % (memlib.SRC_DIR, unit)
    fs.dirs.add(memlib.SRC_DIR)
    fs.files[path] = src.encode("utf-8")
    mod = sys.modules.get(modname) or types.ModuleType(modname)
    sys.modules[modname] = mod
    ns = {"__name__": modname, "__file__": path}
    exec(compile(src, path, "exec"), ns)
    return ns


class Session:
    def __init__(self, fs, clock, cells=False):
        self.fs, self.clock = fs, clock
        self.cells = cells
        self.n_cells = 0
        self.live = []         # (version, plain function, cached wrapper, module dict)
        self.mem = None
        self.on_disk = None
        self.preamble = ""     # text above the function in its file (the function's own lines stay the same)

    def start(self, flavour):
        memlib.fresh_process()
        self.mem = memlib.new_memory()
        self.live = []
        if self.on_disk is not None:
            self.define(flavour, self.on_disk)

    def define(self, flavour, k):
        if self.cells:
            # a notebook-like redefinition: every definition has its own source unit, the module and the name stay
            self.n_cells += 1
            ns = _define_cell(self.fs, "c12mod", "cell_%d" % self.n_cells, _src(flavour, k))
        else:
            ns = memlib.define(self.fs, "c12mod", self.preamble + _src(flavour, k))
        f = ns["f"]
        self.live.append((k, f, self.mem.cache(f), ns))
        self.on_disk = k


def run_history(flavour, ops, cells=False):
    """ops: list of ('def', k) | ('call', j, a) | ('new',).  Returns list of problems (None = ill-formed history).
    cells=False: a redefinition is an edit of the one module file - only the newest definition may be called (an older
    function object has lost its source: joblib reads code from the file on purpose).  cells=True: every definition has
    its own source unit (notebook cell), every live definition may be called."""
    fs = fakefs.FS()
    clock = memlib.Clock()
    probs = []
    with memlib.env(fs, clock):
        s = Session(fs, clock, cells)
        s.start(flavour)
        for i, op in enumerate(ops):
            if op[0] == "def":
                s.define(flavour, op[1])
            elif op[0] == "new":
                if s.on_disk is None:
                    return None
                s.start(flavour)
            else:
                j, a = op[1], op[2]
                if j >= len(s.live):
                    return None
                if not cells and j != len(s.live) - 1:
                    return None
                k, f, g, ns = s.live[j]
                try:
                    v = g.call(a)[0] if (len(op) > 3 and op[3]) else g(a)     # .call(): forced execution, result stored
                except Exception as e:
                    probs.append("step %d: calling definition #%d (v%d) raised %s: %s" % (i, j, k, type(e).__name__, e))
                    break
                want = f(a)                      # what the code of the called object computes
                if v != want:
                    probs.append("step %d: definition #%d runs version v%d: call(%r) returned %r, its code computes %r" % (
                        i, j, k, a, v, want))
                    break
    return probs


def _decode(kind, x, a):
    if kind == 0:
        return ("def", x)
    if kind == 1:
        return ("call", x, a)
    return ("new",)


def ob_hist(k1: int, x1: int, a1: int, k2: int, x2: int, a2: int, k3: int, x3: int, a3: int,
            k4: int, x4: int, a4: int) -> bool:
    """
    pre: 0 <= k1 <= 2 and 0 <= k2 <= 2 and 0 <= k3 <= 2 and 0 <= k4 <= 2
    pre: 0 <= x1 <= 2 and 0 <= x2 <= 2 and 0 <= x3 <= 2 and 0 <= x4 <= 2
    pre: 0 <= a1 <= 1 and 0 <= a2 <= 1 and 0 <= a3 <= 1 and 0 <= a4 <= 1
    post: _
    """
    H.enter()
    L = H.P("L")
    raw = [(k1, x1, a1), (k2, x2, a2), (k3, x3, a3), (k4, x4, a4)]
    H.assume(k1 == H.P("first_kind"))
    for (k, x, a) in raw[L:]:
        H.assume(k == 0 and x == 0 and a == 0)
    for (k, x, a) in raw[:L]:
        H.assume(k != 2 or (x == 0 and a == 0))       # 'new' has no operands
        H.assume(k != 0 or a == 0)                    # 'def' has no argument
    steps = [(H.select(k, 0, 2), H.select(x, 0, 2), H.select(a, 0, 1)) for (k, x, a) in raw[:L]]
    with H.native():
        ops = [("def", 0)] + [_decode(*s) for s in steps]
        # the recorded, known class: an *older* live definition called after a newer one was called in the same
        # process (both share one func id; the in-memory shortcut used to trust the older one blindly)
        cells = H.P("cells", False)
        if cells:
            # known-finding class: an older live definition is called after a newer one was *called* in this process
            newest_called, stale_call = -1, False
            live = [0]
            for op in ops[1:]:
                if op[0] == "def":
                    live.append(op[1])
                elif op[0] == "new":
                    live, newest_called = live[-1:], -1
                elif op[1] < len(live):
                    if op[1] < newest_called:
                        stale_call = True
                    newest_called = max(newest_called, op[1])
            H.known("KF-C12-stale-inmemory-shortcut", stale_call)
        probs = run_history(H.P("flavour"), ops, cells)
        if probs is None:
            H.assume(False)
        for m in probs:
            H.note("%r: %s" % (ops, m))
        return H.verdict(not probs)


def ob_two_defs(ka: int, kb: int, j1: int, j2: int, j3: int, a1: int, a2: int, a3: int, fc: int) -> bool:
    """
    pre: 0 <= fc <= 3
    pre: 0 <= ka <= 2 and 0 <= kb <= 2
    pre: 0 <= j1 <= 1 and 0 <= j2 <= 1 and 0 <= j3 <= 1
    pre: 0 <= a1 <= 1 and 0 <= a2 <= 1 and 0 <= a3 <= 1
    post: _
    """
    H.enter()
    # two live definitions of one name (each in its own source unit), three calls in any pattern
    va, vb = H.select(ka, 0, 2), H.select(kb, 0, 2)
    js = [H.select(j, 0, 1) for j in (j1, j2, j3)]
    as_ = [H.select(a, 0, 1) for a in (a1, a2, a3)]
    H.known("KF-C12-stale-inmemory-shortcut", (js[0] > js[1]) or (js[1] > js[2]) or (js[0] > js[2]))
    fcv = H.select(fc, 0, 3)              # which of the three calls (if any) is a forced MemorizedFunc.call()
    with H.native():
        ops = [("def", va), ("def", vb)] + [("call", j, a, fcv == i + 1) for i, (j, a) in enumerate(zip(js, as_))]
        probs = run_history(H.P("flavour"), ops, cells=True)
        for m in probs or []:
            H.note("%r: %s" % (ops, m))
        return H.verdict(not probs)


def ob_swap(k0: int, k1: int, k2: int, a: int, calls: int) -> bool:
    """
    pre: 0 <= k0 <= 2 and 0 <= k1 <= 2 and 0 <= k2 <= 2
    pre: 0 <= a <= 1
    pre: 0 <= calls <= 7
    post: _
    """
    H.enter()
    # hot reload: the module file is rewritten and the *same function object* gets the new code object
    # (f.__code__ = new.__code__, what IPython's %autoreload does); `calls` says after which swaps f is called
    vs = [H.select(k0, 0, 2), H.select(k1, 0, 2), H.select(k2, 0, 2)]
    aa, cm = H.select(a, 0, 1), H.select(calls, 0, 7)
    with H.native():
        flavour = H.P("flavour")
        fs = fakefs.FS()
        clock = memlib.Clock()
        probs = []
        with memlib.env(fs, clock):
            memlib.fresh_process()
            mem = memlib.new_memory()
            ns = memlib.define(fs, "c12mod", _src(flavour, vs[0]))
            f = ns["f"]
            g = mem.cache(f)
            codes = {}
            for step, v in enumerate(vs):
                if step > 0:
                    if v in codes and H.P("reuse_code_objects", True):
                        fs.files["%s/c12mod.py" % memlib.SRC_DIR] = _src(flavour, v).encode("utf-8")
                        f.__code__ = codes[v]           # swapping back to a code object seen before
                    else:
                        new = memlib.define(fs, "c12mod", _src(flavour, v))["f"]
                        f.__code__ = new.__code__
                codes.setdefault(v, f.__code__)
                if (cm >> step) & 1:
                    got, want = g(aa), f(aa)
                    if got != want:
                        probs.append("after swapping to %r: cached call returned %r, the code computes %r" % (vs[:step + 1], got, want))
                        break
        for m in probs:
            H.note(m)
        return H.verdict(not probs)


def ob_two_stores(k0: int, k1: int, a: int, new_session: bool, first_b: bool) -> bool:
    """
    pre: 0 <= k0 <= 2 and 0 <= k1 <= 2
    pre: 0 <= a <= 1
    post: _
    """
    H.enter()
    # the same function cached in two cache directories: results of version k0 sit in store B; the source is edited
    # to k1 (optionally in a fresh process); the new definition is called through store A and then through store B
    v0, v1, aa = H.select(k0, 0, 2), H.select(k1, 0, 2), H.select(a, 0, 1)
    ns_, fb = bool(new_session), bool(first_b)
    with H.native():
        from joblib import Memory
        flavour = H.P("flavour")
        fs = fakefs.FS()
        clock = memlib.Clock()
        probs = []
        with memlib.env(fs, clock):
            memlib.fresh_process()
            f0 = memlib.define(fs, "c12mod", _src(flavour, v0))["f"]
            mem_a, mem_b = Memory(memlib.CACHE + "_A", verbose=0), Memory(memlib.CACHE + "_B", verbose=0)
            if fb:
                mem_a.cache(f0)(aa)
            mem_b.cache(f0)(aa)
            if ns_:
                memlib.fresh_process()
                mem_a, mem_b = Memory(memlib.CACHE + "_A", verbose=0), Memory(memlib.CACHE + "_B", verbose=0)
            f1 = memlib.define(fs, "c12mod", _src(flavour, v1))["f"]
            for nm, mem in (("A", mem_a), ("B", mem_b), ("A", mem_a)):
                got, want = mem.cache(f1)(aa), f1(aa)
                if got != want:
                    probs.append("store %s returned %r for the new definition (its code computes %r)" % (nm, got, want))
        for m in probs:
            H.note("v%d -> v%d, new process=%r: %s" % (v0, v1, ns_, m))
        return H.verdict(not probs)


NOSRC = ["def f(a):\n    return ('n', a + %d)\n" % k for k in range(3)] + ["def f(a):\n    return ('n', a - 1)\n"]


def ob_nosrc(k0: int, k1: int, k2: int, a: int) -> bool:
    """
    pre: 0 <= k0 <= 3 and 0 <= k1 <= 3 and 0 <= k2 <= 3
    pre: 0 <= a <= 1
    post: _
    """
    H.enter()
    # functions whose source cannot be read back (exec / interactive definition): versions differ in a constant or
    # an operator only
    ks, aa = [H.select(k0, 0, 3), H.select(k1, 0, 3), H.select(k2, 0, 3)], H.select(a, 0, 1)
    with H.native():
        fs = fakefs.FS()
        clock = memlib.Clock()
        probs = []
        with memlib.env(fs, clock):
            memlib.fresh_process()
            mem = memlib.new_memory()
            for k in ks:
                nsd = {"__name__": "c12nosrc"}
                exec(compile(NOSRC[k], "<no source %d>" % 0, "exec"), nsd)
                f = nsd["f"]
                got, want = mem.cache(f)(aa), f(aa)
                if got != want:
                    probs.append("definition %r returned %r, its code computes %r" % (NOSRC[k], got, want))
        for m in probs:
            H.note("%r: %s" % (ks, m))
        return H.verdict(not probs)


def ob_persist(k: int, a: int, sessions: int, moved: int) -> bool:
    """
    pre: 0 <= k <= 2 and 0 <= a <= 1
    pre: 1 <= sessions <= 3
    pre: 0 <= moved <= 2
    post: _
    """
    H.enter()
    kk, aa, ns_ = H.select(k, 0, 2), H.select(a, 0, 1), H.select(sessions, 1, 3)
    mv = H.select(moved, 0, 2)        # lines added above the (unchanged) function between two sessions
    with H.native():
        flavour = H.P("flavour")
        fs = fakefs.FS()
        clock = memlib.Clock()
        probs = []
        with memlib.env(fs, clock):
            s = Session(fs, clock)
            s.start(flavour)
            s.define(flavour, kk)
            s.live[-1][2](aa)
            for i in range(ns_):
                s.preamble = "import os  # added later\n" * (mv * (i + 1))
                s.start(flavour)
                kq, f, g, ns = s.live[-1]
                del ns["LOG"][:]
                v = g(aa)
                if v != ("v%d" % kk, aa):
                    probs.append("session %d returned %r" % (i + 1, v))
                if ns["LOG"]:
                    probs.append("unchanged code was recomputed in fresh process %d" % (i + 1))
        for m in probs:
            H.note(m)
        return H.verdict(not probs)


def ob_lambda(order: int) -> bool:
    """
    pre: 0 <= order <= 3
    post: _
    """
    H.enter()
    o = H.select(order, 0, 3)
    with H.native():
        fs = fakefs.FS()
        clock = memlib.Clock()
        probs = []
        with memlib.env(fs, clock):
            memlib.fresh_process()
            mem = memlib.new_memory()
            ns = memlib.define(fs, "c12lam", "f1 = lambda a: ('one', a)\nf2 = lambda a: ('two', a)\n")
            g1, g2 = mem.cache(ns["f1"]), mem.cache(ns["f2"])
            seq = [[g1, g2, g1], [g2, g1, g2], [g1, g1, g2], [g2, g2, g1]][o]
            for g in seq:
                want = ("one", 3) if g is g1 else ("two", 3)
                v = g(3)
                if v != want:
                    probs.append("lambda returned %r, expected %r" % (v, want))
        for m in probs:
            H.note(m)
        return H.verdict(not probs)


def validate():
    rows = fakefs.selfcheck()
    r = run_history("module", [("def", 0), ("call", 0, 1), ("new",), ("call", 0, 1), ("def", 1), ("call", 1, 1)])
    rows.append(("reference history (edit between sessions) is clean", r == [], str(r)))
    rows.append(("versions differ", len({_src("module", k) for k in range(3)}) == 3, ""))
    return rows


def obligations(tier, seed):
    obs = []
    L = 3 if tier == "quick" else 4
    for flavour in ("module", "prefix"):
        obs.append({"name": "swap/%s" % flavour, "fn": "ob_swap", "mode": "S", "params": {"flavour": flavour},
                    "timeout": 600, "bounds": "f.__code__ swapped twice between versions 0..2 (code objects reused when a "
                                              "version comes back), calls after any subset of the three stages"})
    for flavour in ("module", "nested", "shifted", "prefix"):
        for fk in range(3):
            obs.append({"name": "hist/%s/L%d/first_%s" % (flavour, L, ["def", "call", "new"][fk]), "fn": "ob_hist", "mode": "S",
                        "params": {"flavour": flavour, "L": L, "first_kind": fk}, "timeout": 900 if tier == "quick" else 3400,
                        "bounds": "define v0, then %d operations (first: %s) over define v0..v2 / call live #0..#2 with arg 0..1 / "
                                  "fresh process" % (L, ["def", "call", "new"][fk])})
        if flavour in ("module", "nested"):
            for fk in range(3):
                obs.append({"name": "cells/%s/L%d/first_%s" % (flavour, L, ["def", "call", "new"][fk]), "fn": "ob_hist",
                            "mode": "S", "kf": ["KF-C12-stale-inmemory-shortcut"],
                            "params": {"flavour": flavour, "L": L, "first_kind": fk, "cells": True},
                            "timeout": 900 if tier == "quick" else 3400,
                            "bounds": "as hist/, every definition in its own source unit (notebook cell), all live "
                                      "definitions callable"})
        if flavour in ("module", "nested"):
            obs.append({"name": "two_defs/%s" % flavour, "fn": "ob_two_defs", "mode": "S",
                        "kf": ["KF-C12-stale-inmemory-shortcut"], "params": {"flavour": flavour}, "timeout": 600,
                        "bounds": "define va, define vb (own source units), three calls of either live definition (at most one of them a forced .call()), args 0..1"})
        if flavour in ("module", "prefix"):
            obs.append({"name": "two_stores/%s" % flavour, "fn": "ob_two_stores", "mode": "S", "params": {"flavour": flavour},
                        "timeout": 300, "bounds": "two cache directories in one process: version k0 cached in B (and A), edit to "
                                                  "k1 (same or fresh process), call through A, B, A"})
        if flavour == "prefix":
            continue
        obs.append({"name": "persist/%s" % flavour, "fn": "ob_persist", "mode": "S", "params": {"flavour": flavour},
                    "timeout": 300, "bounds": "version 0..2, argument 0..1, 1..3 fresh processes"})
    obs.append({"name": "nosrc", "fn": "ob_nosrc", "mode": "S", "timeout": 300,
                "bounds": "three successive definitions without retrievable source (differing in a constant / operator), arg 0..1"})
    obs.append({"name": "lambda", "fn": "ob_lambda", "mode": "S", "timeout": 120,
                "bounds": "two lambdas on two lines of one module, 4 interleaved call orders"})
    return obs
