"""Shared environment for the Memory harnesses (C02 C05 C06 C11 C12 C14 C18): in-memory file system,
fake clock, output-formatting cuts, 'fresh process' reset."""
import contextlib
import types

from symx.stubs import fakefs

CACHE = fakefs.PREFIX + "/cache"


class Clock:
    """Monotone fake clock shared by joblib.memory / joblib._store_backends (never the real time)."""

    def __init__(self, start=1000.0, step=0.001):
        self.now = start
        self.step = step

    def time(self):
        self.now += self.step
        return self.now

    def sleep(self, s):
        self.now += s

    def advance(self, s):
        self.now += s


class _Shim:
    def __init__(self, base, **over):
        self.__dict__["_base"] = base
        self.__dict__.update(over)

    def __getattr__(self, name):
        return getattr(self._base, name)


WARNINGS = []


def _rec_warn(*a, **k):
    WARNINGS.append(str(a[0])[:200] if a else "")


class _TextDoc:
    def document(self, *a, **k):
        return ""


def fresh_process():
    """What a new interpreter would start with: empty in-memory tables."""
    import joblib.memory as jm
    jm._FUNCTION_HASHES.clear()
    if hasattr(jm, "_FUNCTION_ID_HASHES"):
        jm._FUNCTION_ID_HASHES.clear()
    del WARNINGS[:]


@contextlib.contextmanager
def env(fs, clock=None):
    """fakefs installed + clock + cuts (warnings / traceback / pydoc formatting is not the subject of any property
    and dominated path cost under tracing)."""
    import joblib.memory as jm
    import joblib._store_backends as sb
    import joblib.func_inspect as fi
    import joblib.logger as jl
    clock = clock or Clock()
    saved = []

    def setg(mod, name, make):
        # cut only what the module really uses (a module may stop importing warnings / traceback / pydoc)
        if name not in mod.__dict__:
            return
        saved.append((mod, name, mod.__dict__[name]))
        setattr(mod, name, make(mod.__dict__[name]))
    setg(jm, "time", lambda m: _Shim(m, time=clock.time, sleep=clock.sleep))
    setg(sb, "time", lambda m: _Shim(m, time=clock.time, sleep=clock.sleep))
    setg(jm, "warnings", lambda m: _Shim(m, warn=_rec_warn))
    setg(sb, "warnings", lambda m: _Shim(m, warn=_rec_warn))
    setg(fi, "warnings", lambda m: _Shim(m, warn=_rec_warn))
    setg(jm, "traceback", lambda m: _Shim(m, format_exc=lambda *a, **k: "<traceback cut>"))
    setg(jm, "pydoc", lambda m: _Shim(m, TextDoc=_TextDoc))
    try:
        with fakefs.installed(fs):
            yield clock
    finally:
        for mod, name, val in reversed(saved):
            setattr(mod, name, val)


def new_memory(**kw):
    from joblib import Memory
    kw.setdefault("verbose", 0)
    return Memory(CACHE, **kw)


SRC_DIR = fakefs.PREFIX + "/src"


def define(fs, modname, src):
    """Put `src` on the model file system as /vfs/src/<modname>.py and execute it as that module: the real
    get_func_code then reads the function source back through the patched open()."""
    path = "%s/%s.py" % (SRC_DIR, modname)
    fs.dirs.add(SRC_DIR)
    fs.files[path] = src.encode("utf-8")
    import sys
    mod = types.ModuleType(modname)
    mod.__file__ = path
    sys.modules[modname] = mod          # classes defined there must be picklable by reference
    exec(compile(src, path, "exec"), mod.__dict__)
    return mod.__dict__
