"""Shared by C02 and C06: programs, call forms, typed value universe and the reference cache model.

A *history* is a sequence of calls of Memory-cached programs on one cache directory (model file system),
possibly separated by 'fresh process' boundaries.  The reference model is a dict keyed by the typed bound
arguments (minus the ignore list): the body runs iff the key is absent, the result is always the plain
function's value.
"""
import inspect
import pickle

from symx.stubs import fakefs
from harness import memlib

# near-colliding values: equal under ==, equal hash(), prefixes, str/bytes, list/tuple
U = [1, 1.0, True, 0, -1, -2, "a", b"a", (1,), [1], None, {1}, frozenset({1})]

SRC = '''
import functools
LOG = []

def T(x):
    if isinstance(x, (list, tuple)):
        return (type(x).__name__, tuple(T(y) for y in x))
    if isinstance(x, dict):
        return ("dict", tuple(sorted((repr(k), T(v)) for k, v in x.items())))
    if isinstance(x, (set, frozenset)):
        return (type(x).__name__, tuple(sorted(repr(T(y)) for y in x)))
    return (type(x).__name__, repr(x))

def f(a, b=2):
    LOG.append("f")
    return ("f", T(a), T(b))

def g(a, /, b=2, *rest, k=0, **kw):
    LOG.append("g")
    return ("g", T(a), T(b), T(rest), T(k), T(kw))

def h(base, a, b=2):
    LOG.append("h")
    return ("h", T(base), T(a), T(b))

p10 = functools.partial(h, 10)
p20 = functools.partial(h, 20)
pk5 = functools.partial(h, 10, b=5)
pk7 = functools.partial(h, 10, b=7)

class K:
    def __init__(self, tag):
        self.tag = tag
    def m(self, a, b=2):
        LOG.append("m")
        return ("m", self.tag, T(a), T(b))

k1 = K("k1")
k2 = K("k2")

def _wrapped(a, b=2):
    return None

@functools.wraps(_wrapped)
def ws(a, b=2):              # a wrapper that declares the wrapped function's own defaults
    LOG.append("ws")
    return ("ws", T(a), T(b))

@functools.wraps(_wrapped)
def wd(a, b=5):              # ... and one whose own default differs from the wrapped function's
    LOG.append("wd")
    return ("wd", T(a), T(b))

async def co(a, b=2):
    LOG.append("co")
    return ("co", T(a), T(b))
'''


def typed(x):
    if isinstance(x, (list, tuple)):
        return (type(x).__name__, tuple(typed(y) for y in x))
    if isinstance(x, dict):
        return ("dict", tuple(sorted((repr(k), typed(v)) for k, v in x.items())))
    if isinstance(x, (set, frozenset)):
        return (type(x).__name__, tuple(sorted(repr(typed(y)) for y in x)))
    return (type(x).__name__, repr(x))


# call forms: name -> (program attribute, builder(va, vb) -> (args, kwargs), spells_b)
# every form of one program binds a=va and b=vb (vb == 2 forms may leave b to its default)
def forms_for(prog):
    if prog in ("f", "p10", "p20", "k1.m", "k2.m", "co"):
        return [
            ("pos", lambda va, vb: ((va, vb), {})),
            ("pos_kw", lambda va, vb: ((va,), {"b": vb})),
            ("kw_kw", lambda va, vb: ((), {"a": va, "b": vb})),
            ("kw_rev", lambda va, vb: ((), {"b": vb, "a": va})),
            ("default_pos", lambda va, vb: ((va,), {})),          # only when vb is the default
            ("default_kw", lambda va, vb: ((), {"a": va})),       # only when vb is the default
        ]
    if prog in ("pk5", "pk7"):
        return [("default_pos", lambda va, vb: ((va,), {})), ("default_kw", lambda va, vb: ((), {"a": va}))]
    if prog == "g":
        return [
            ("pos", lambda va, vb: ((va, vb), {})),
            ("pos_kw", lambda va, vb: ((va,), {"b": vb})),
            ("default_pos", lambda va, vb: ((va,), {})),
            ("pos_k0", lambda va, vb: ((va, vb), {"k": 0})),      # keyword-only default spelled out
            ("rest", lambda va, vb: ((va, vb, vb), {})),          # a different call: surplus positional
            ("kw_a", lambda va, vb: ((va, vb), {"a": va})),       # a different call: 'a' lands in **kw
            ("rest_k0", lambda va, vb: ((va, vb, vb), {"k": 0})),  # same binding as "rest"
            ("rest_kb", lambda va, vb: ((va, vb, vb), {"k": vb})),  # a different call: k takes the surplus value
        ]
    raise KeyError(prog)


DEFAULT_ONLY = {"default_pos", "default_kw"}


def resolve(ns, prog):
    obj = ns
    for part in prog.split("."):
        obj = obj[part] if isinstance(obj, dict) else getattr(obj, part)
    return obj


def bound_key(prog, plain, args, kwargs, ignore):
    """Typed canonical binding of a call (what Python binds), minus ignored names."""
    if prog in ("p10", "p20", "pk5", "pk7"):
        sig = inspect.signature(plain.func)
        ba = sig.bind(*(plain.args + tuple(args)), **dict(plain.keywords, **kwargs))
    else:
        sig = inspect.signature(plain)
        ba = sig.bind(*args, **kwargs)
    ba.apply_defaults()
    items = tuple(sorted((k, typed(v)) for k, v in ba.arguments.items() if k not in ignore))
    ident = prog if prog in ("k1.m", "k2.m", "p10", "p20", "pk5", "pk7") else prog.split(".")[0]
    return (ident, items)


class World:
    """One cache directory + the current 'process'."""

    def __init__(self, compress=False, verbose=0, reverse_listing=False):
        self.fs = fakefs.FS()
        self.fs.reverse_listing = reverse_listing
        self.clock = memlib.Clock()
        self.compress = compress
        self.verbose = verbose
        self.wrappers = {}
        self.ns = None
        self.model = {}

    def new_process(self, how="memory"):
        """how: 'memory' (new Memory + cache()), 'pickle' (wrappers travel by pickle as to a worker)."""
        old = dict(self.wrappers)
        memlib.fresh_process()
        if how == "pickle" and old:
            blobs = {}
            for k, w in old.items():
                try:
                    blobs[k] = pickle.dumps(w)
                except Exception:
                    blobs[k] = None
            self.wrappers = {}
            for k, b in blobs.items():
                if b is not None:
                    self.wrappers[k] = pickle.loads(b)
            return
        self.ns = memlib.define(self.fs, "memcalls_mod", SRC)
        self.mem = memlib.new_memory(compress=self.compress, verbose=self.verbose)
        self.wrappers = {}

    def wrapper(self, prog, ignore):
        key = (prog, tuple(ignore))
        if key not in self.wrappers:
            plain = resolve(self.ns, prog)
            self.wrappers[key] = self.mem.cache(plain, ignore=list(ignore)) if ignore else self.mem.cache(plain)
        return self.wrappers[key]

    def call(self, prog, form, va, vb, ignore=(), shelve=False, check_first=False):
        """Perform one call; returns a list of problems (empty = consistent with the model)."""
        import asyncio
        problems = []
        plain = resolve(self.ns, prog)
        builder = dict(forms_for(prog))[form]
        args, kwargs = builder(va, vb)
        if prog in ("p10", "p20", "pk5", "pk7"):
            expected = plain(*args, **kwargs)
        elif prog == "co":
            expected = asyncio.run(plain(*args, **kwargs))
        else:
            expected = plain(*args, **kwargs)
        log = self.ns["LOG"]
        del log[:]
        key = bound_key(prog, plain, args, kwargs, ignore)
        w = self.wrapper(prog, ignore)
        if check_first:
            try:
                incache = w.check_call_in_cache(*args, **kwargs)
            except Exception as e:
                incache = None
                problems.append(("value", "check_call_in_cache raised %s: %s" % (type(e).__name__, e)))
            if incache is not None and bool(incache) != (key in self.model) and prog not in ("p10", "p20", "pk5", "pk7"):
                problems.append(("hit", "check_call_in_cache=%r but the model says cached=%r for %s(%r, %r)" % (
                    incache, key in self.model, prog, args, kwargs)))
        try:
            if shelve and prog == "co":
                got = asyncio.run(w.call_and_shelve(*args, **kwargs)).get()
            elif shelve:
                got = w.call_and_shelve(*args, **kwargs).get()
            elif prog == "co":
                got = asyncio.run(w(*args, **kwargs))
            else:
                got = w(*args, **kwargs)
        except Exception as e:
            problems.append(("value", "%s%r %r raised %s: %s" % (prog, args, kwargs, type(e).__name__, e)))
            return problems
        executed = len(log)
        if prog in ("p10", "p20", "pk5", "pk7"):
            # functools.partial objects cannot be inspected (documented: no ignore list, code identity by repr):
            # only value correctness is required of them
            if got != expected:
                problems.append(("value", "%s(%r, %r) [%s] returned %r, expected %r" % (prog, args, kwargs, form, got, expected)))
            if executed > 1:
                problems.append(("value", "%s body ran %d times in one call" % (prog, executed)))
            return problems
        if key in self.model:
            want = self.model[key]
            if executed != 0:
                problems.append(("hit", "%s(%r, %r) [%s] was cached but the body ran again" % (prog, args, kwargs, form)))
                want = expected if not ignore else want
        else:
            want = expected
            if executed != 1:
                problems.append(("hit", "%s(%r, %r) [%s] not cached but the body ran %d times" % (prog, args, kwargs, form, executed)))
            self.model[key] = expected
        if got != want and not (ignore and got == expected):
            problems.append(("value", "%s(%r, %r) [%s] returned %r, expected %r" % (prog, args, kwargs, form, got, want)))
        return problems
