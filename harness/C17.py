"""C17 - parallel_config settings are scoped, thread-local and correctly prioritised.

T obligations (values are z3 Ints flowing through parallel_config / _get_config_param / Parallel.__init__):
  key/<k>        one setting at a time, nesting depth <= 3: which levels set it (symbolic mask), the values
                 (symbolic ints for n_jobs / verbose / max_nbytes, selectors for the string-valued ones),
                 explicit Parallel argument or not, exit of the innermost block by exception or not.
                 Oracle: explicit > innermost > outer > default; after *every* exit the thread-local holds the
                 very object it held before the block.
S obligations (solver-driven exhaustive case split, body native - the configuration is all selectors):
  resolve/<ctx backend>   context(backend,prefer,require) x Parallel(backend,prefer,require): which backend class
                 results, against a 12-line model of the documented rules (explicit backend beats prefer,
                 require='sharedmem' => thread-based backend or ValueError, inconsistent hints rejected).
  compose        two nested contexts + explicit arguments over reduced domains: composition of scoping and
                 resolution.
  api/parallel_backend    same through the legacy parallel_backend context manager.
"""
import threading

from symx import H

PROPERTY = "C17"
DESIGN_REF = "DESIGN.md section 4.17"
TECHNIQUE = ("bounded symbolic execution (CrossHair+z3) of parallel_config/_get_active_backend/Parallel.__init__ "
             "with symbolic nesting masks, values and exit modes against a precedence model")
LEVEL_TEXT = ("Per setting: every nesting of <=3 contexts (any subset setting it, symbolic values), explicit argument or "
              "not, exit by return or exception - explored symbolically; backend/prefer/require interaction: the full "
              "cross product of context and explicit selectors (3600 cases per API) by solver-driven case split.")
LEVEL_NOTE = ("Trusted: CrossHair/z3; the precedence model (harness). Thread-locality is reduced to: the store is a "
              "threading.local (asserted) + a concrete two-thread run in the validation step. Outside: depth > 3, "
              "external backends (dask/ray), inner_max_num_threads, backend constructor parameters.")
EXPLANATION = "Scoping/precedence of parallel_config decided on the real context manager and Parallel constructor."
STUBS = ["none for key/*; pools are never started (only Parallel.__init__ runs)"]
ASSUMES = ["nesting depth <= 3", "settings domain: builtin backends, prefer/require literals, small ints"]
OUTSIDE = ["nesting depth 4", "true multi-thread interleavings (threading.local is trusted)", "external backends"]

BACKENDS = [None, "threading", "loky", "multiprocessing", "sequential"]   # None = unset
# the other documented ways of naming a backend explicitly in Parallel(backend=...): an instance, a multiprocessing context
EXPLICIT = BACKENDS + ["inst:threading", "inst:multiprocessing", "inst:loky", "mpctx"]
PREFER = ["unset", None, "threads", "processes"]
REQUIRE = ["unset", None, "sharedmem"]
SHAREDMEM = {"threading", "sequential", "inst:threading"}
CLS = {"threading": "ThreadingBackend", "loky": "LokyBackend", "multiprocessing": "MultiprocessingBackend",
       "sequential": "SequentialBackend", "inst:threading": "ThreadingBackend",
       "inst:multiprocessing": "MultiprocessingBackend", "inst:loky": "LokyBackend", "mpctx": "MultiprocessingBackend"}


def _explicit(name):
    import multiprocessing as mp
    import joblib._parallel_backends as pb
    if name == "mpctx":
        return mp.get_context("fork")
    if name.startswith("inst:"):
        return getattr(pb, CLS[name])()
    return name


class _Boom(Exception):
    pass


def _cfg():
    import joblib.parallel as jp
    return getattr(jp._backend, "config", jp.default_parallel_config)


def _nest(levels, i, body, log, factory=None):
    """Enter levels[i:] (dicts of kwargs) recursively, run body innermost; after every exit check restoration."""
    import joblib.parallel as jp
    if i == len(levels):
        return body()
    before = _cfg()
    try:
        cm = (factory or jp.parallel_config)(**levels[i])
        with cm:
            if _cfg() is before and levels[i]:
                pass
            return _nest(levels, i + 1, body, log, factory)
    finally:
        if _cfg() is not before:
            log.append("config not restored after level %d" % i)


def _reset():
    import joblib.parallel as jp
    if hasattr(jp._backend, "config"):
        del jp._backend.config


STR_VALUES = {"mmap_mode": ["r", "r+", "c", "w+"], "temp_folder": ["/a", "/b", "/c", "/d"]}


def ob_key(depth: int, s0: bool, s1: bool, s2: bool, v0: int, v1: int, v2: int,
           ex: bool, xv: int, boom: bool, s3: bool, v3: int) -> bool:
    """
    pre: 0 <= depth <= 4
    pre: 1 <= v0 <= 60 and 1 <= v1 <= 60 and 1 <= v2 <= 60 and 1 <= xv <= 60 and 1 <= v3 <= 60
    post: _
    """
    H.enter()
    import joblib.parallel as jp
    key = H.P("key")
    _reset()
    if not isinstance(jp._backend, threading.local):
        return H.verdict(False, "the configuration store is not a threading.local")
    sets, vals = [s0, s1, s2, s3], [v0, v1, v2, v3]
    maxd = H.P("max_depth", 3)
    H.assume(depth <= maxd)

    def conv(v):
        # falsy settings are settings too: max_nbytes=None / 0 (never memmap), mmap_mode=None, verbose=0
        if key in STR_VALUES:
            r = H.select(v % 3, 0, 2)
            return None if (r == 2 and key == "mmap_mode") else STR_VALUES[key][r % 2]
        if key == "max_nbytes" and v % 7 == 0:
            return None
        if key in ("max_nbytes", "verbose") and v % 7 == 1:
            return 0
        return v

    d = H.select(depth, 0, maxd)
    levels = []
    expected = None
    for i in range(d):
        if sets[i]:
            val = conv(vals[i])
            levels.append({key: val})
            expected = ("v", val)
        else:
            levels.append({"prefer": None} if i % 2 else {})    # a context that sets something else / nothing
    for i in range(d, 4):
        H.assume(not sets[i])
    xval = None
    if ex:
        xval = conv(xv)
        expected = ("v", xval)
    seen = {}
    log = []

    def body():
        kw = {key: xval} if ex else {}
        p = jp.Parallel(**kw)
        seen["verbose"] = p.verbose
        seen["n_jobs"] = p.n_jobs
        for k in ("max_nbytes", "mmap_mode", "temp_folder"):
            seen[k] = p._backend_kwargs[k]
        if boom:
            raise _Boom()
        return p

    try:
        _nest(levels, 0, body, log)
        if boom:
            return H.verdict(False, "exception swallowed by a context")
    except _Boom:
        if not boom:
            return H.verdict(False, "spurious exception")
    if log:
        return H.verdict(False, *log)
    if _cfg() is not jp.default_parallel_config:
        return H.verdict(False, "a configuration is still active after leaving every block")
    defaults = {"verbose": 0, "n_jobs": 1, "max_nbytes": 1024 ** 2, "mmap_mode": "r", "temp_folder": None}
    want = expected[1] if expected is not None else defaults[key]
    ok = seen[key] == want
    for k in defaults:          # the other settings keep their defaults
        if k != key:
            ok = ok and seen[k] == defaults[k]
    return H.verdict(ok, "key %s: saw %r, expected %r (levels %r, explicit %r)" % (key, seen, want, levels, ex))


def _model(ctx_b, prefer, require, exp_b):
    """Documented resolution from the *effective* settings.  Returns 'ValueError' or a class name."""
    if prefer == "processes" and require == "sharedmem":
        return "ValueError"
    if exp_b is not None:
        if require == "sharedmem" and exp_b not in SHAREDMEM:
            return "ValueError"
        return CLS[exp_b]
    if ctx_b is None:
        if require == "sharedmem" or prefer == "threads":
            return "ThreadingBackend"
        return "LokyBackend"
    if require == "sharedmem" and ctx_b not in SHAREDMEM:
        return "ThreadingBackend"
    return CLS[ctx_b]


def _eff(ctx_v, exp_v):
    return exp_v if exp_v != "unset" else (ctx_v if ctx_v != "unset" else None)


def _resolve_case(levels_sel, exp_sel, factory_name):
    """levels_sel: list of (b, p, r) selector triples; exp_sel: (b, p, r)."""
    import joblib.parallel as jp
    _reset()
    levels = []
    ctx_b, ctx_p, ctx_r = None, "unset", "unset"
    for (b, p, r) in levels_sel:
        kw = {}
        if BACKENDS[b] is not None:
            kw["backend"] = BACKENDS[b]
            ctx_b = BACKENDS[b]
        if factory_name == "parallel_config":
            if PREFER[p] != "unset":
                kw["prefer"] = PREFER[p]
                ctx_p = PREFER[p]
            if REQUIRE[r] != "unset":
                kw["require"] = REQUIRE[r]
                ctx_r = REQUIRE[r]
        levels.append(kw)
    eb, ep, er = exp_sel
    kw = {}
    if EXPLICIT[eb] is not None:
        kw["backend"] = _explicit(EXPLICIT[eb])
    if PREFER[ep] != "unset":
        kw["prefer"] = PREFER[ep]
    if REQUIRE[er] != "unset":
        kw["require"] = REQUIRE[er]
    want = _model(ctx_b, _eff(ctx_p, PREFER[ep]), _eff(ctx_r, REQUIRE[er]), EXPLICIT[eb])
    log = []
    factory = getattr(jp, factory_name)
    try:
        p = _nest(levels, 0, lambda: jp.Parallel(n_jobs=2, **kw), log, factory)
        got = type(p._backend).__name__
        if _eff(ctx_r, REQUIRE[er]) == "sharedmem" and not getattr(p._backend, "supports_sharedmem", False):
            log.append("require='sharedmem' yielded %s" % got)
    except ValueError:
        got = "ValueError"
    if _cfg() is not jp.default_parallel_config:
        log.append("configuration leaked out of the blocks")
    if got != want:
        log.append("contexts %r + Parallel(%r): got %s, expected %s" % (levels, kw, got, want))
    for m in log:
        H.note(m)
    return not log


def ob_resolve(b: int, p: int, r: int, eb: int, ep: int, er: int) -> bool:
    """
    pre: 0 <= p <= 3 and 0 <= r <= 2
    pre: 0 <= eb <= 8 and 0 <= ep <= 3 and 0 <= er <= 2
    post: _
    """
    H.enter()
    cb = H.P("ctx_backend")
    H.assume(b == cb)
    factory = H.P("factory", "parallel_config")
    if factory == "parallel_backend":
        H.assume(p == 0 and r == 0)
    sel = (cb, H.select(p, 0, 3), H.select(r, 0, 2))
    ex = (H.select(eb, 0, 8), H.select(ep, 0, 3), H.select(er, 0, 2))
    with H.native():
        return H.verdict(_resolve_case([sel], ex, factory))


RB = [0, 1, 2]          # reduced domains for the composition obligation
RP = [0, 2]
RR = [0, 2]


def ob_compose(b0: int, p0: int, r0: int, b1: int, p1: int, r1: int, eb: int, ep: int, er: int) -> bool:
    """
    pre: 0 <= b0 <= 2 and 0 <= p0 <= 1 and 0 <= r0 <= 1
    pre: 0 <= b1 <= 2 and 0 <= p1 <= 1 and 0 <= r1 <= 1
    pre: 0 <= eb <= 2 and 0 <= ep <= 1 and 0 <= er <= 1
    post: _
    """
    H.enter()
    l0 = (RB[H.select(b0, 0, 2)], RP[H.select(p0, 0, 1)], RR[H.select(r0, 0, 1)])
    l1 = (RB[H.select(b1, 0, 2)], RP[H.select(p1, 0, 1)], RR[H.select(r1, 0, 1)])
    ex = (RB[H.select(eb, 0, 2)], RP[H.select(ep, 0, 1)], RR[H.select(er, 0, 1)])
    with H.native():
        return H.verdict(_resolve_case([l0, l1], ex, "parallel_config"))


def ob_njobs_fallback(ctx_n: int, has_ctx_n: bool, exp_n: int, has_exp_n: bool, via_require: bool) -> bool:
    """
    pre: 2 <= ctx_n <= 40 and 2 <= exp_n <= 40
    post: _
    """
    H.enter()
    # forced thread fallback (documented: "n_jobs=1 by default") keeps the other context settings
    import joblib.parallel as jp
    _reset()
    kw = {"backend": "loky", "verbose": 7, "max_nbytes": 4096, "mmap_mode": "c", "temp_folder": "/t"}
    if has_ctx_n:
        kw["n_jobs"] = ctx_n
    pkw = {"require": "sharedmem"}
    if has_exp_n:
        pkw["n_jobs"] = exp_n
    log = []
    p = _nest([kw], 0, lambda: jp.Parallel(**pkw), log)
    ok = type(p._backend).__name__ == "ThreadingBackend" and not log
    ok = ok and p.n_jobs == (exp_n if has_exp_n else 1)
    ok = ok and p.verbose == 7 and p._backend_kwargs["max_nbytes"] == 4096
    ok = ok and p._backend_kwargs["mmap_mode"] == "c" and p._backend_kwargs["temp_folder"] == "/t"
    return H.verdict(ok, "fallback Parallel: n_jobs=%r verbose=%r kwargs=%r" % (p.n_jobs, p.verbose, p._backend_kwargs))


def validate():
    """Concrete two-thread run: a context entered in one thread is invisible in another."""
    import joblib.parallel as jp
    out = []
    _reset()
    seen = {}
    inside, done = threading.Event(), threading.Event()

    def other():
        inside.wait(5)
        seen["other"] = jp.Parallel().n_jobs
        seen["other_cfg"] = hasattr(jp._backend, "config")
        done.set()
    t = threading.Thread(target=other)
    t.start()
    with jp.parallel_config(backend="threading", n_jobs=5):
        seen["main"] = jp.Parallel().n_jobs
        inside.set()
        done.wait(5)
    t.join()
    out.append(("two threads: context visible only in its thread",
                seen.get("main") == 5 and seen.get("other") == 1 and seen.get("other_cfg") is False and _cfg() is jp.default_parallel_config, str(seen)))
    out.append(("model: explicit backend beats prefer", _model(None, "threads", None, "loky") == "LokyBackend", ""))
    out.append(("model: sharedmem + loky context -> threads", _model("loky", None, "sharedmem", None) == "ThreadingBackend", ""))
    return out


def obligations(tier, seed):
    obs = []
    for key in ("n_jobs", "verbose", "max_nbytes", "mmap_mode", "temp_folder"):
        obs.append({"name": "key/%s" % key, "fn": "ob_key", "params": {"key": key, "max_depth": 3 if tier == "quick" else 4},
                    "timeout": 300 if tier == "quick" else 1500,
                    "bounds": "depth 0..3 (thorough: 4), any subset of levels sets the key, symbolic values 1..60 (strings: 4 "
                              "choices), explicit argument or not, exception exit or not"})
    for cb in range(5):
        obs.append({"name": "resolve/ctx_%s" % (BACKENDS[cb] or "unset"), "fn": "ob_resolve", "mode": "S",
                    "params": {"ctx_backend": cb}, "timeout": 300,
                    "bounds": "context prefer x require (12) x explicit backend (name, instance or multiprocessing context) x prefer x require (108)"})
    for cb in range(1, 5):
        obs.append({"name": "api_parallel_backend/ctx_%s" % BACKENDS[cb], "fn": "ob_resolve", "mode": "S",
                    "params": {"ctx_backend": cb, "factory": "parallel_backend"}, "timeout": 200,
                    "bounds": "legacy parallel_backend(backend) x explicit backend (name, instance or multiprocessing context) x prefer x require (108)"})
    obs.append({"name": "compose", "fn": "ob_compose", "mode": "S", "timeout": 600,
                "bounds": "two nested contexts + explicit over backend{unset,threading,loky} x prefer{unset,threads} "
                          "x require{unset,sharedmem}: 12^3 = 1728 cases"})
    obs.append({"name": "njobs_fallback", "fn": "ob_njobs_fallback", "timeout": 120,
                "bounds": "forced thread fallback: context/explicit n_jobs in 2..40 or unset"})
    return obs
