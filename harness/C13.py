"""C13 - joblib's compressed file objects behave exactly like a plain byte stream.

BinaryZlibFile / BinaryGzipFile run on the real zlib codec (concrete payloads: the C codec is outside the encoding
anyway) with joblib.compressor._BUFFER_SIZE patched to 1/3/4/7 so that raw-block boundaries, empty decompressor
outputs and multi-block reads are reached with payloads of a few bytes; plus the real 8192 with payloads of
8191/8192/8193/16385 bytes.
  seq1/<codec>/<payload>/<bs> (S)  prefix ([nothing | read-to-end] ; seek(p) for every p) + one fully symbolic operation
                                   (kind, amount, whence) + full observation, against io.BytesIO with clamping seeks.
  seq2/... (S, thorough)           two fully symbolic operations.
  amounts/<op> (T)                 one operation with a *symbolic* amount / offset traced through read/_read_block/seek
                                   (byte slicing realises the amount: one path per value, all values in the bound).
  big/<codec> (S)                  real block size, payload sizes around 8192 and its multiples, amounts at the boundaries.
  write/<codec> (S)                any 2-cut chunking of the payload, any level 1..9: the standard decoder returns it.
Oracle: a 20-line reference stream (bytes + position with the documented clamping).
"""
import io
import zlib
import gzip

from symx import H

PROPERTY = "C13"
DESIGN_REF = "DESIGN.md section 4.13"
TECHNIQUE = ("solver-enumerated operation sequences (CrossHair+z3 selectors; amounts symbolic under tracing for single "
             "operations) on the real BinaryZlibFile/BinaryGzipFile with a shrunk block size, differential against a "
             "reference byte stream")
LEVEL_TEXT = ("All positions x all single operations (read(n), read(), readinto, readline, tell, seek in 3 whence modes, "
              "amounts in [-3, len+3]) after either prefix, for 6 payloads x zlib/gzip x 4 block sizes; two-operation "
              "sequences in the thorough tier; payloads around the real 8192 block size; every 2-cut write chunking x "
              "levels 1..9.")
LEVEL_NOTE = ("Trusted: CrossHair/z3, zlib (C), the reference stream. _BUFFER_SIZE is a module constant the code is "
              "parametric in (stated assumption). Outside: sequences longer than 2 (+prefix) operations, symbolic "
              "payload bytes, concurrent use of one file object.")
EXPLANATION = "Differential testing harness driven by solver-enumerated operation sequences on the real file objects."
STUBS = ["joblib.compressor._BUFFER_SIZE patched to small values", "io.BytesIO as the raw file"]
ASSUMES = ["seek targets >= 0 (documented domain)", "behaviour does not depend on the value of _BUFFER_SIZE other than through block boundaries"]
OUTSIDE = ["operation sequences beyond the bound", "text-mode wrappers"]

PAYLOADS = {
    "empty": b"",
    "one": b"x",
    "lines9": b"abc\ndef\ng",
    "rand13": bytes((i * 97 + 31) % 251 for i in range(13)),
    "aaaa40": b"a" * 40,
    "nl5": b"\n\n\nab",
}
OPS = ["read", "readall", "readinto", "readline", "tell", "seek0", "seek1", "seek2"]


class Ref:
    """Reference stream: bytes + position; seeks clamp to [0, len] (documented behaviour)."""

    def __init__(self, data):
        self.data, self.pos = data, 0

    def apply(self, op, n):
        d = self.data
        if op == "read":
            if n < 0:
                return self.apply("readall", 0)
            out = d[self.pos:self.pos + n]
            self.pos += len(out)
            return out
        if op == "readall":
            out = d[self.pos:]
            self.pos = len(d)
            return out
        if op == "readinto":
            out = d[self.pos:self.pos + max(n, 0)]
            self.pos += len(out)
            return (len(out), out)
        if op == "readline":
            j = d.find(b"\n", self.pos)
            end = len(d) if j < 0 else j + 1
            if n >= 0:
                end = min(end, self.pos + n)
            out = d[self.pos:end]
            self.pos = end
            return out
        if op == "tell":
            return self.pos
        if op in ("seek0", "seek1", "seek2"):
            base = {"seek0": 0, "seek1": self.pos, "seek2": len(d)}[op]
            tgt = base + n
            if tgt < 0:
                return "out-of-domain"
            self.pos = min(tgt, len(d))
            return self.pos
        raise AssertionError(op)


def _do(f, op, n):
    if op == "read":
        return f.read(n)
    if op == "readall":
        return f.read()
    if op == "readinto":
        if type(n) is int and n >= 2 and n % 2 == 0:        # (concrete amounts only: a traced amount stays a bytearray)
            # any writable buffer: one whose items are wider than a byte receives n bytes too (as io.BytesIO does)
            raw = bytearray(n)
            k = f.readinto(memoryview(raw).cast("H"))
            return (k, bytes(raw[:k]))
        b = bytearray(max(n, 0))
        k = f.readinto(b)
        return (k, bytes(b[:k]))
    if op == "readline":
        return f.readline(n)
    if op == "tell":
        return f.tell()
    return f.seek(n, {"seek0": 0, "seek1": 1, "seek2": 2}[op])


def _open(codec, payload, level, bs):
    import joblib.compressor as jc
    cls = jc.BinaryGzipFile if codec == "gzip" else jc.BinaryZlibFile
    raw = gzip.compress(payload, level, mtime=0) if codec == "gzip" else zlib.compress(payload, level)
    jc._BUFFER_SIZE = bs
    return cls(io.BytesIO(raw), "rb")


def run_sequence(codec, payload, level, bs, ops):
    """ops: list of (opname, amount).  Returns list of problems."""
    import joblib.compressor as jc
    saved = jc._BUFFER_SIZE
    try:
        f = _open(codec, payload, level, bs)
        ref = Ref(payload)
        probs = []
        for k, (op, n) in enumerate(ops):
            want = ref.apply(op, n)
            if want == "out-of-domain":
                return []                    # negative seek target: outside the documented domain
            got = _do(f, op, n)
            if got != want:
                probs.append("step %d %s(%r): got %r, reference %r" % (k, op, n, got, want))
                return probs
        # observation
        for op, n in (("tell", 0), ("readall", 0), ("tell", 0), ("seek0", 0), ("readall", 0), ("read", 1)):
            want = ref.apply(op, n)
            got = _do(f, op, n)
            if got != want:
                probs.append("after %r: %s(%r) got %r, reference %r" % (ops, op, n, got, want))
                break
        f.close()
        return probs
    finally:
        jc._BUFFER_SIZE = saved


def ob_seq1(prefix_all: bool, p: int, op: int, n: int) -> bool:
    """
    pre: 0 <= p <= 44
    pre: 0 <= op <= 7
    pre: -3 <= n <= 44
    post: _
    """
    H.enter()
    payload = PAYLOADS[H.P("payload")]
    L = len(payload)
    H.assume(p <= L + 1 and n <= L + 3)
    pa = bool(prefix_all)
    pp, oo, nn = H.select(p, 0, L + 1), H.select(op, 0, 7), H.select(n, -3, L + 3)
    with H.native():
        ops = ([("readall", 0)] if pa else []) + [("seek0", pp), (OPS[oo], nn)]
        with H.Watchdog(90):
            probs = run_sequence(H.P("codec"), payload, H.P("level", 3), H.P("bs"), ops)
        for m in probs:
            H.note(m)
        return H.verdict(not probs)


def ob_seq2(p: int, op1: int, n1: int, op2: int, n2: int) -> bool:
    """
    pre: 0 <= p <= 14
    pre: 0 <= op1 <= 7 and 0 <= op2 <= 7
    pre: -2 <= n1 <= 16 and -2 <= n2 <= 16
    post: _
    """
    H.enter()
    payload = PAYLOADS[H.P("payload")]
    L = len(payload)
    H.assume(p <= L + 1 and n1 <= L + 2 and n2 <= L + 2)
    H.assume(op1 == H.P("op1"))
    pp = H.select(p, 0, L + 1)
    o2 = H.select(op2, 0, 7)
    a1, a2 = H.select(n1, -2, L + 2), H.select(n2, -2, L + 2)
    with H.native():
        ops = [("seek0", pp), (OPS[H.P("op1")], a1), (OPS[o2], a2)]
        with H.Watchdog(90):
            probs = run_sequence(H.P("codec"), payload, 3, H.P("bs"), ops)
        for m in probs:
            H.note(m)
        return H.verdict(not probs)


def ob_amounts(p: int, n: int) -> bool:
    """
    pre: 0 <= p <= 10
    pre: -2 <= n <= 12
    post: _
    """
    H.enter()
    # traced: the amount flows symbolically through read / _read_block / seek until a slice realises it
    payload = PAYLOADS["lines9"]
    pp = H.select(p, 0, 10)
    probs = run_sequence(H.P("codec"), payload, 3, 4, [("seek0", pp), (H.P("op"), n)])
    return H.verdict(not probs, *probs)


BIG_SIZES = [8191, 8193, 16385]
BIG_AMOUNTS = [1, 8191, 8192, 8193, 20000, -1]


def _big_payload(size, kind):
    if kind == 0:
        return bytes((i * 7919 + (i >> 3) * 104729) % 256 for i in range(size))      # poorly compressible
    return (b"joblib " * (size // 7 + 1))[:size]                                      # highly compressible


def ob_big(si: int, kind: int, a1: int, op1: int, a2: int, op2: int) -> bool:
    """
    pre: 0 <= si <= 2 and 0 <= kind <= 1
    pre: 0 <= a1 <= 5 and 0 <= a2 <= 5
    pre: 0 <= op1 <= 2 and 0 <= op2 <= 2
    post: _
    """
    H.enter()
    s, k = H.select(si, 0, 2), H.select(kind, 0, 1)
    x1, x2, o1, o2 = H.select(a1, 0, 5), H.select(a2, 0, 5), H.select(op1, 0, 2), H.select(op2, 0, 2)
    with H.native():
        names = ["read", "seek0", "seek1"]
        payload = _big_payload(BIG_SIZES[s], k)
        ops = [(names[o1], BIG_AMOUNTS[x1]), (names[o2], BIG_AMOUNTS[x2])]
        with H.Watchdog(90):
            probs = run_sequence(H.P("codec"), payload, H.P("level", 3), 8192, ops)
        for m in probs:
            H.note(m[:300])
        return H.verdict(not probs)


def ob_write(c1: int, c2: int, level: int, empty_writes: bool) -> bool:
    """
    pre: 0 <= c1 <= 20 and 0 <= c2 <= 20
    pre: 1 <= level <= 9
    post: _
    """
    H.enter()
    payload = PAYLOADS[H.P("payload")]
    L = len(payload)
    H.assume(c1 <= c2 and c2 <= L)
    x1, x2, lv = H.select(c1, 0, L), H.select(c2, 0, L), H.select(level, 1, 9)
    ew = bool(empty_writes)
    with H.native():
        import joblib.compressor as jc
        codec = H.P("codec")
        cls = jc.BinaryGzipFile if codec == "gzip" else jc.BinaryZlibFile
        raw = io.BytesIO()
        f = cls(raw, "wb", compresslevel=lv)
        total = 0
        for chunk in (payload[:x1], payload[x1:x2], payload[x2:]):
            if chunk or ew:
                total += f.write(chunk)
        tell = f.tell()
        f.close()
        data = raw.getvalue()
        try:
            back = gzip.decompress(data) if codec == "gzip" else zlib.decompress(data)
        except Exception as e:
            return H.verdict(False, "cuts %d,%d level %d: standard decoder failed: %s: %s" % (x1, x2, lv, type(e).__name__, e))
        ok = back == payload and total == L and tell == L
        return H.verdict(ok, "cuts %d,%d level %d: decoded %r (wrote %d, tell %d)" % (x1, x2, lv, back[:40], total, tell))


def validate():
    rows = []
    for name, payload in PAYLOADS.items():
        r = run_sequence("zlib", payload, 3, 4, [("read", 2), ("seek1", 1), ("readline", -1)])
        rows.append(("reference agrees on %s" % name, r == [], str(r)))
    # the reference stream itself against io.BytesIO on in-range operations
    b, ref = io.BytesIO(PAYLOADS["lines9"]), Ref(PAYLOADS["lines9"])
    ok = True
    for op, n in [("read", 2), ("readline", -1), ("tell", 0), ("seek0", 1), ("readinto", 3), ("seek2", -2), ("readall", 0)]:
        ok = ok and _do(b, op, n) == ref.apply(op, n)
    rows.append(("reference stream == io.BytesIO on in-range operations", ok, ""))
    return rows


def obligations(tier, seed):
    obs = []
    combos = [("zlib", "lines9", 4), ("zlib", "lines9", 3), ("gzip", "rand13", 4), ("zlib", "empty", 4),
              ("gzip", "one", 1), ("zlib", "nl5", 1), ("gzip", "lines9", 7), ("gzip", "nl5", 3)]
    if tier == "thorough":
        combos += [(c, pl, bs) for c in ("zlib", "gzip") for pl in PAYLOADS for bs in (1, 3, 4, 7)
                   if (c, pl, bs) not in combos and pl != "aaaa40"] + [("zlib", "aaaa40", 3)]
    for codec, pl, bs in combos:
        obs.append({"name": "seq1/%s/%s/bs%d" % (codec, pl, bs), "fn": "ob_seq1", "mode": "S",
                    "params": {"codec": codec, "payload": pl, "bs": bs}, "timeout": 900,
                    "bounds": "prefix (none | read-to-end) ; seek(p) for every p in 0..len+1 ; one of 8 operations with amount in "
                              "[-3, len+3] ; observation"})
    if tier == "thorough":
        for codec, pl, bs in [("zlib", "lines9", 4), ("gzip", "rand13", 3), ("zlib", "nl5", 1)]:
            for op1 in range(8):
                obs.append({"name": "seq2/%s/%s/bs%d/%s" % (codec, pl, bs, OPS[op1]), "fn": "ob_seq2", "mode": "S",
                            "params": {"codec": codec, "payload": pl, "bs": bs, "op1": op1}, "timeout": 3000,
                            "bounds": "seek(p) ; %s(n1) ; any op(n2) ; observation, amounts in [-2, len+2]" % OPS[op1]})
    # (seek1 / readline with a symbolic amount did not exhaust in 300 s - 3 000+ paths - and are left to seq1/seq2)
    for codec, op in [("zlib", "read"), ("zlib", "seek0"), ("gzip", "seek2"), ("gzip", "readinto")]:
        obs.append({"name": "amounts/%s/%s" % (codec, op), "fn": "ob_amounts", "mode": "T",
                    "params": {"codec": codec, "op": op}, "timeout": 300,
                    "bounds": "payload of 9 bytes, block size 4: seek(p), p in 0..10, then %s(n) with n symbolic in [-2,12]" % op})
    for codec in ("zlib", "gzip"):
        obs.append({"name": "big/%s" % codec, "fn": "ob_big", "mode": "S", "params": {"codec": codec}, "timeout": 900,
                    "bounds": "real block size 8192; payloads of 8191/8193/16385 bytes (in)compressible; two operations "
                              "from read/seek(abs)/seek(rel) with amounts at the block boundaries"})
        for pl in ("lines9", "empty", "aaaa40") if codec == "zlib" else ("rand13", "empty"):
            obs.append({"name": "write/%s/%s" % (codec, pl), "fn": "ob_write", "mode": "S",
                        "params": {"codec": codec, "payload": pl}, "timeout": 600,
                        "bounds": "payload written in 3 chunks at any two cut points (empty chunks written or skipped), level 1..9"})
    return obs
