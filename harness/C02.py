"""C02 - a Memory-cached function never returns a value belonging to other arguments.

S obligations (solver-driven exhaustive case split over call histories; each case runs the real Memory code
natively on the model file system - hashing is md5 over pickles, i.e. C code, so values are never symbolic):
  hist/<programs>/<config>   call A(form1, v1) ; [process boundary] ; call B(form2, v2) ; call A again in form3.
                             (v1, v2) ranges over near-colliding pairs (quick) or the whole typed universe squared
                             (thorough).  Programs: plain function, positional-only/*args/keyword-only/**kw
                             function, two bound methods of distinct instances, two functools.partial objects of
                             one function, async function.  Config: compress in {False, True, 3}, boundary in
                             {same process, new Memory, wrapper sent through pickle}, direct or call_and_shelve.
  Oracle: every returned value equals the undecorated function's value for the bound arguments.
Key canonicalisation itself (filter_args) is decided symbolically by C07; the digest by C08.
"""
from symx import H
from harness import memcalls, memlib

PROPERTY = "C02"
DESIGN_REF = "DESIGN.md section 4.2"
TECHNIQUE = ("solver-driven exhaustive case analysis (CrossHair+z3 selectors) of call histories through the real "
             "Memory/MemorizedFunc/store code on a model file system; argument binding decided symbolically in C07")
LEVEL_TEXT = ("All 3-call histories over 5 program families x call forms x near-colliding typed value pairs x "
              "{compress, process boundary, shelving} configurations return the plain function's value; the solver "
              "guarantees the declared selector space is covered completely, each case is one concrete run.")
LEVEL_NOTE = ("Trusted: CrossHair/z3 for completeness of the case split, the file-system model, md5. Outside: values "
              "beyond the 11-element universe, histories longer than 3 calls, lambdas/closures (documented gotcha), "
              "concurrent processes (C11).")
EXPLANATION = "Histories of cached calls vs a reference map keyed by typed bound arguments."
STUBS = ["fakefs", "fake clock", "warnings/traceback/pydoc cuts"]
ASSUMES = ["md5 collision freedom", "argument values from the typed near-collision universe"]
OUTSIDE = ["lambdas and closures over differing captured values", "values outside the universe"]

U = memcalls.U
# near-colliding pairs (indices into U), both orders are explored through `swap`
PAIRS = [(0, 0), (0, 1), (0, 2), (1, 2), (4, 5), (6, 7), (8, 9), (10, 3), (11, 12), (8, 8), (3, 0), (3, 4), (6, 0)]
PROGRAMS = {"plain": ("f", "f"), "rich": ("g", "g"), "methods": ("k1.m", "k2.m"), "partials": ("p10", "p20"),
            "kw_partials": ("pk5", "pk7"),
            "async": ("co", "co")}
BOUNDARY = ["none", "memory", "pickle"]


def _run_history(progs, form1, form2, form3, i1, i2, vb_spelled, shelve, compress, boundary, verbose=0):
    w = memcalls.World(compress=compress, verbose=verbose)
    problems = []
    with memlib.env(w.fs, w.clock):
        w.new_process()
        f1 = memcalls.forms_for(progs[0])[form1][0]
        f2 = memcalls.forms_for(progs[1])[form2][0]
        f3 = memcalls.forms_for(progs[0])[form3][0]
        vb = 2
        for fm in (f1, f2, f3):
            if fm in memcalls.DEFAULT_ONLY and vb_spelled:
                return None       # not a well-formed case: default-only form with a spelled-out b
        if vb_spelled:
            vb = 2.0              # near-collision with the default 2
        problems += w.call(progs[0], f1, U[i1], vb, shelve=shelve)
        if boundary != "none":
            w.new_process(boundary)
        problems += w.call(progs[1], f2, U[i2], vb, shelve=shelve)
        problems += w.call(progs[0], f3, U[i1], vb, shelve=False)
    return [m for kind, m in problems if kind == "value"]


def ob_hist(form1: int, form2: int, form3: int, pair: int, swap: bool, vb_spelled: bool, shelve: bool) -> bool:
    """
    pre: 0 <= form1 <= 7 and 0 <= form2 <= 7 and 0 <= form3 <= 7
    pre: 0 <= pair <= 200
    post: _
    """
    H.enter()
    progs = PROGRAMS[H.P("programs")]
    full = H.P("full_universe", False)
    NU = 11                 # the full-universe obligations range over the 11 scalar / sequence values (the set pair is in PAIRS)
    npairs = NU * NU if full else H.P("npairs", len(PAIRS))
    H.assume(pair < npairs)
    nf = len(memcalls.forms_for(progs[0]))
    H.assume(form1 < nf and form2 < nf and form3 < nf)
    fm1, fm2, fm3 = H.select(form1, 0, nf - 1), H.select(form2, 0, nf - 1), H.select(form3, 0, nf - 1)
    if H.P("fix_form2", True):
        H.assume(form2 == form1)
    pi = H.select(pair, 0, npairs - 1)
    i1, i2 = (pi // NU, pi % NU) if full else PAIRS[pi]
    if swap:
        i1, i2 = i2, i1
    sp, sh = bool(vb_spelled), bool(shelve)
    with H.native():
        res = _run_history(progs, fm1, fm2, fm3, i1, i2, sp, sh, H.P("compress"), H.P("boundary"))
        if res is None:
            H.assume(False)
        for m in res:
            H.note(m)
        return H.verdict(not res)


IGNORES = [(), ("b",), ("a",)]


def ob_redecorate(i1: int, i2: int, inner: int, outer: int, boundary: bool) -> bool:
    """
    pre: 0 <= i1 <= 5 and 0 <= i2 <= 5
    pre: 0 <= inner <= 2 and 0 <= outer <= 2
    post: _
    """
    H.enter()
    # decorating an already decorated function: only the outer wrapper's own ignore list applies to its calls
    a1, a2 = U[H.select(i1, 0, 5)], U[H.select(i2, 0, 5)]
    ign_in, ign_out = IGNORES[H.select(inner, 0, 2)], IGNORES[H.select(outer, 0, 2)]
    bd = bool(boundary)
    with H.native():
        w = memcalls.World()
        probs = []
        with memlib.env(w.fs, w.clock):
            w.new_process()
            plain = memcalls.resolve(w.ns, "f")

            def wrappers():
                g = w.mem.cache(plain, ignore=list(ign_in)) if ign_in else w.mem.cache(plain)
                return g, (w.mem.cache(g, ignore=list(ign_out)) if ign_out else w.mem.cache(g))
            g, h = wrappers()
            seen = {}
            calls = [(a1, 2), (a2, 2), (a1, 5), (a2, 5)]
            for n, (a, b) in enumerate(calls):
                if bd and n == 2:
                    w.new_process()
                    plain = memcalls.resolve(w.ns, "f")
                    g, h = wrappers()
                key = (memcalls.typed(a) if "a" not in ign_out else None, memcalls.typed(b) if "b" not in ign_out else None)
                got = h(a, b)
                want = seen.setdefault(key, plain(a, b))
                if got != want and got != plain(a, b):
                    probs.append("h = cache(cache(f, ignore=%r), ignore=%r): h(%r, %r) returned %r, f computes %r" % (
                        list(ign_in), list(ign_out), a, b, got, plain(a, b)))
        for m in probs:
            H.note(m)
        return H.verdict(not probs)


def ob_wraps(variant: int, i1: int, spelled_first: bool) -> bool:
    """
    pre: 0 <= variant <= 1
    pre: 0 <= i1 <= 5
    post: _
    """
    H.enter()
    # functools.wraps wrappers: Python binds a call against the wrapper's *own* signature and defaults
    v, a = H.select(variant, 0, 1), U[H.select(i1, 0, 5)]
    sf = bool(spelled_first)
    H.known("KF-C02-wraps-differing-defaults", v == 1)
    with H.native():
        w = memcalls.World()
        probs = []
        with memlib.env(w.fs, w.clock):
            w.new_process()
            plain = memcalls.resolve(w.ns, ["ws", "wd"][v])
            g = w.mem.cache(plain)
            calls = [((a, 2), {}), ((a,), {})]          # b spelled out as 2 / b left to the wrapper's default
            if not sf:
                calls.reverse()
            for args, kwargs in calls:
                got, want = g(*args, **kwargs), plain(*args, **kwargs)
                if got != want:
                    probs.append("%s%r returned %r, the function computes %r" % (["ws", "wd"][v], args, got, want))
        for m in probs:
            H.note(m)
        return H.verdict(not probs)


def validate():
    from symx.stubs import fakefs
    rows = fakefs.selfcheck()
    r = _run_history(("f", "f"), 0, 0, 1, 0, 1, False, False, False, "none")
    rows.append(("reference history is clean on the current tree", r == [], str(r)))
    # the model must be able to see a wrong value: serve f(1.0) the entry of f(1)
    w = memcalls.World()
    with memlib.env(w.fs, w.clock):
        w.new_process()
        w.call("f", "pos", 1, 2)
        plain = memcalls.resolve(w.ns, "f")
        k_int = memcalls.bound_key("f", plain, (1, 2), {}, ())
        k_flt = memcalls.bound_key("f", plain, (1.0, 2), {}, ())
    rows.append(("typed keys separate 1 and 1.0", k_int != k_flt, ""))
    return rows


def obligations(tier, seed):
    obs = []
    obs.append({"name": "wraps", "fn": "ob_wraps", "mode": "S", "timeout": 120, "kf": ["KF-C02-wraps-differing-defaults"],
                "bounds": "functools.wraps wrappers whose own default for b equals / differs from the wrapped function's; "
                          "f(a, 2) and f(a) in both orders, 6 values of a"})
    obs.append({"name": "redecorate", "fn": "ob_redecorate", "mode": "S", "timeout": 600,
                "bounds": "h = cache(cache(f, ignore=I), ignore=O) for I, O in {[], ['b'], ['a']}; 4 calls over two of 6 "
                          "near-colliding values x b in {2, 5}; with or without a fresh process in between"})
    compress_opts = [False, True] if tier == "quick" else [False, True, 3]
    for pname in PROGRAMS:
        for comp in compress_opts:
            for b in BOUNDARY:
                if tier == "quick" and comp and b != "none":
                    continue
                if pname == "async" and b == "pickle":
                    continue
                full = tier == "thorough" and b == "none" and not comp and pname != "rich"
                obs.append({"name": "hist/%s/compress=%s/boundary=%s" % (pname, comp, b), "fn": "ob_hist", "mode": "S",
                            "params": {"programs": pname, "compress": comp, "boundary": b,
                                       "full_universe": full, "fix_form2": True,
                                       "npairs": 9 if tier == "quick" else len(PAIRS)},
                            "timeout": 600 if tier == "quick" else 3000,
                            "bounds": "3-call histories: forms 6x6, %s value pairs x swap, default vs spelled b, direct vs "
                                      "shelved" % ("all 121 (11 values)" if full else "%d near-colliding" % (9 if tier == "quick" else len(PAIRS)))})
    return obs
