"""C04 - task failures surface as that exception; Parallel stays reusable and clean.

Real Parallel + backends on parsim (see C01).  S obligations, schedule and fault positions are solver-enumerated:
  fail/<config>     call 0: task f raises (f symbolic over all positions) under a symbolic schedule (pre-emption
                    point, completion picks); call 1 on the same object must return exactly its own results.
  iterfail/<cfg>    the input iterator raises at item j (symbolic): the caller gets that exception.
  timeout/<cfg>     a batch never completes and timeout is set: TimeoutError, the call terminates.
  history/<cfg>     three calls fail/succeed/fail (pattern symbolic) on one object, inside or outside `with`.
Oracle: the exception has the type and args of one raised by a task (or the iterator's, or TimeoutError); no hang;
the next call returns exactly its results; no batch of a finished call is submitted or executed afterwards.
"""
from symx import H
from harness import parlib

PROPERTY = "C04"
DESIGN_REF = "DESIGN.md section 4.4"
TECHNIQUE = ("solver-enumerated schedules and fault positions (CrossHair+z3 selectors) driving the real Parallel error "
             "paths on a deterministic two-thread simulator")
LEVEL_TEXT = ("Every failing-task position, every single pre-emption point (thorough: two), completion picks, iterator "
              "failure position, never-completing batch with timeout, and 3-call fail/succeed histories, for 5 backend "
              "flavours: the right exception surfaces, the call terminates, the object is reusable with nothing left over.")
LEVEL_NOTE = ("Trusted: CrossHair/z3 for completeness of the enumeration; parsim's model of pool termination (queued "
              "work is dropped, an in-progress completion goes on: stale callbacks are reachable). Outside: real "
              "process kill semantics of loky.terminate, more than K pre-emptions, KeyboardInterrupt.")
EXPLANATION = "Failure/abort/reuse paths of Parallel explored over schedules and fault positions on a simulated pool."
STUBS = ["parsim (SimLock, SimTime, SimPool, SimExecutor)", "warnings cut"]
ASSUMES = ["callbacks serialised on one thread", "a terminated pool drops queued work and never calls back for it"]
OUTSIDE = ["hard kills of worker processes (C10)", "more than K pre-emptions per run"]

_BASE = {}


def _cfg(params, calls):
    return dict(backend=params["backend"], n_workers=params.get("n_workers", 2), verbose=params.get("verbose", 0),
                pre_dispatch=params.get("pre_dispatch", 2),
                batch_size=params.get("batch_size", 1), return_as=params.get("return_as", "list"),
                calls=calls, use_with=params.get("use_with", False), timeout=params.get("timeout"),
                stuck=params.get("stuck", ()), stmt=params.get("stmt", False), cb_threads=params.get("cb_threads", 1))


def prepare(params):
    if "backend" not in params:
        return
    n0 = params.get("n0", 6)
    o = parlib.run(_cfg(params, [dict(n_tasks=n0, fail_at=n0 - 1), dict(n_tasks=4)]), {})
    _BASE["steps"] = o.steps + 6


def _check_calls(o, spec):
    """spec: per call ('ok', n) | ('fail', n, f) | ('iterfail', n, j) | ('timeout', n)"""
    probs = []
    if o.hang:
        probs.append("hang: %s" % o.hang)
    if o.cb_errors:
        probs.append("callback thread raised: %r" % (o.cb_errors,))
    if o.leftovers:
        probs.append("work of a finished call ran later: %r" % (o.leftovers[:3],))
    if len(o.calls) != len(spec):
        probs.append("only %d of %d calls finished" % (len(o.calls), len(spec)))
        return probs
    for k, (rec, sp) in enumerate(zip(o.calls, spec)):
        kind, n = sp[0], sp[1]
        e = rec["exc"]
        if kind == "ok":
            want = [(k, i) for i in range(n)]
            if e is not None:
                probs.append("call %d raised %s: %s" % (k, type(e).__name__, e))
            elif (list(rec["result"]) if getattr(o.parallel, "return_ordered", True) else sorted(rec["result"])) != want:
                probs.append("call %d returned %r, expected %r" % (k, rec["result"], want))
            if sorted(x for x in o.exec_log if x[0] == k) != want:
                probs.append("call %d executed %r" % (k, [x for x in o.exec_log if x[0] == k]))
        elif kind == "fail":
            if not isinstance(e, parlib.TaskError) or e.args != ("task %d of call %d failed" % (sp[2], k),):
                probs.append("call %d: expected TaskError of task %d, got %r (result %r)" % (k, sp[2], e, rec["result"]))
        elif kind == "iterfail":
            if not isinstance(e, (parlib.IterError, parlib.IterBaseError)):
                probs.append("call %d: expected the iterator's IterError, got %r (result %r)" % (k, e, rec["result"]))
        elif kind == "timeout":
            if e is None or not type(e).__name__.endswith("TimeoutError"):
                probs.append("call %d: expected TimeoutError, got %r (result %r)" % (k, e, rec["result"]))
    return probs


def ob_fail(f: int, n1: int, pos0: int, pos1: int, pk: int) -> bool:
    """
    pre: 0 <= f <= 9
    pre: 0 <= n1 <= 4
    pre: -1 <= pos0 <= 3000 and -1 <= pos1 <= 3000
    pre: 0 <= pk <= 3
    post: _
    """
    H.enter()
    n0 = H.P("n0", 6)
    K = H.P("K", 1)
    steps = _BASE["steps"]
    H.assume(f < n0 and pos0 <= steps and pos1 <= steps)
    if H.P("cb_threads", 1) > 1:
        H.assume(n1 == 4)                      # thread choices consume picks: all four pick patterns
    elif K < 2 or H.P("stmt"):
        H.assume(n1 == 4 and pk <= 1)
    else:
        H.assume(n1 == 4)
    if K < 2:
        H.assume(pos1 == -1)
    else:
        H.assume(pos1 == -1 or (pos0 < pos1 and pos1 % 3 == 0))
        H.assume(pos0 != -1 or pos1 == -1)
        H.assume(pk <= 1)
    ff = H.select(f, 0, n0 - 1)
    nn1 = H.select(n1, 0, 4)
    p0 = H.select_bisect(pos0, -1, steps)
    p1 = H.select_bisect(pos1, -1, steps) if K >= 2 else -1
    pkv = H.select(pk, 0, 3)
    with H.native():
        calls = [dict(n_tasks=n0, fail_at=ff), dict(n_tasks=nn1)]
        pre = [(p, 0) for p in (p0, p1) if p >= 0]
        o = parlib.run(_cfg(H.PARAMS, calls), dict(preempt=pre, picks=[pkv % 2, pkv // 2]))
        probs = _check_calls(o, [("fail", n0, ff), ("ok", nn1)])
        for m in probs:
            H.note("fail_at=%d preempt=%r picks=%r: %s" % (ff, pre, [pkv % 2, pkv // 2], m))
        return H.verdict(not probs)


def ob_iterfail(j: int, pos0: int, pk: int, base: bool) -> bool:
    """
    pre: -2 <= j <= 6
    pre: -1 <= pos0 <= 600
    pre: 0 <= pk <= 1
    post: _
    """
    H.enter()
    steps = _BASE["steps"]
    H.assume(pos0 <= steps)
    jj = H.select(j, -2, 6)                      # -1: the iterable's __iter__ itself raises; -2: with a BaseException
    p0 = H.select_bisect(pos0, -1, steps)
    pkv = H.select(pk, 0, 1)
    bs = bool(base)
    H.assume(jj >= 0 or not bs)
    with H.native():
        # base: the failure is a BaseException that is not an Exception (SystemExit from sys.exit() in the producer, ...)
        calls = [dict(n_tasks=8, iter_fail_at=jj, iter_fail_base=bs) if jj >= 0 else
                 dict(n_tasks=8, iter_raises=True if jj == -1 else "base"), dict(n_tasks=3)]
        pre = [(p0, 0)] if p0 >= 0 else []
        o = parlib.run(_cfg(H.PARAMS, calls), dict(preempt=pre, picks=[pkv]))
        probs = _check_calls(o, [("iterfail", 8, jj), ("ok", 3)])
        for m in probs:
            H.note("iterator fails at %d (BaseException: %r) preempt=%r: %s" % (jj, bs, pre, m))
        return H.verdict(not probs)


def ob_sequential(f: int, verbose: int, n0: int) -> bool:
    """
    pre: 0 <= f <= 4
    pre: 0 <= verbose <= 3
    pre: 1 <= n0 <= 5
    post: _
    """
    H.enter()
    # n_jobs=1: the calling-thread path (no pool), at every verbosity level
    ff, vb, nn = H.select(f, 0, 4), [0, 1, 11, 51][H.select(verbose, 0, 3)], H.select(n0, 1, 5)
    H.assume(f < n0)
    with H.native():
        params = dict(H.PARAMS)
        params.update(n_workers=1, verbose=vb)
        calls = [dict(n_tasks=nn, fail_at=ff), dict(n_tasks=3)]
        o = parlib.run(_cfg(params, calls), {})
        probs = _check_calls(o, [("fail", nn, ff), ("ok", 3)])
        for m in probs:
            H.note("n_jobs=1 verbose=%d, %d tasks, fail_at=%d: %s" % (vb, nn, ff, m))
        return H.verdict(not probs)


TIMEOUTS = [0.05, 0, 0.0]       # 0 is a valid time-out: "do not wait at all", not "wait for ever"


def ob_timeout(stuck: int, pos0: int, pk: int, tmo: int) -> bool:
    """
    pre: 0 <= stuck <= 4
    pre: 0 <= tmo <= 2
    pre: -1 <= pos0 <= 600
    pre: 0 <= pk <= 1
    post: _
    """
    H.enter()
    steps = _BASE["steps"]
    H.assume(pos0 <= steps)
    st = H.select(stuck, 0, 4)
    p0 = H.select_bisect(pos0, -1, steps)
    pkv = H.select(pk, 0, 1)
    tv = TIMEOUTS[H.select(tmo, 0, 2)]
    with H.native():
        params = dict(H.PARAMS)
        params["stuck"] = (st,)
        params["timeout"] = tv
        calls = [dict(n_tasks=5)]
        pre = [(p0, 0)] if p0 >= 0 else []
        o = parlib.run(_cfg(params, calls), dict(preempt=pre, picks=[pkv]))
        probs = _check_calls(o, [("timeout", 5)])
        for m in probs:
            H.note("batch %d never completes, timeout=%r, preempt=%r: %s" % (st, tv, pre, m))
        return H.verdict(not probs)


def ob_history(pattern: int, f: int, pos0: int) -> bool:
    """
    pre: 0 <= pattern <= 7
    pre: 0 <= f <= 3
    pre: -1 <= pos0 <= 900
    post: _
    """
    H.enter()
    H.assume(pos0 == -1 or pos0 % 5 == 0)      # every fifth switch point over the three calls
    H.assume(f == 0 or f == 2)
    pat = H.select(pattern, 0, 7)
    ff = H.select(f, 0, 3)
    p0 = H.select_bisect(pos0, -1, 900)
    with H.native():
        calls, spec = [], []
        for k in range(3):
            if (pat >> k) & 1:
                calls.append(dict(n_tasks=4, fail_at=ff))
                spec.append(("fail", 4, ff))
            else:
                calls.append(dict(n_tasks=4))
                spec.append(("ok", 4))
        pre = [(p0, 0)] if p0 >= 0 else []
        o = parlib.run(_cfg(H.PARAMS, calls), dict(preempt=pre, picks=[]))
        probs = _check_calls(o, spec)
        for m in probs:
            H.note("history %r fail_at=%d preempt=%r: %s" % ([s[0] for s in spec], ff, pre, m))
        return H.verdict(not probs)


def validate():
    rows = []
    o = parlib.run(_cfg({"backend": "threading"}, [dict(n_tasks=4, fail_at=1), dict(n_tasks=3)]), {})
    rows.append(("baseline fail/reuse run is clean", _check_calls(o, [("fail", 4, 1), ("ok", 3)]) == [], str(o.calls and o.calls[0]["exc"])))
    o = parlib.run(_cfg({"backend": "threading"}, [dict(n_tasks=3)]), {})
    rows.append(("oracle rejects a wrong expectation", _check_calls(o, [("fail", 3, 0)]) != [], ""))
    return rows


def obligations(tier, seed):
    obs = []
    K = 1 if tier == "quick" else 2
    blocks = [("threading", "list", False), ("loky", "list", False), ("stub_cb", "list", True),
              ("stub_legacy", "list", False), ("multiprocessing", "list", True), ("threading", "generator", False),
              ("loky", "generator", True), ("stub_noabort", "list", True), ("stub_noabort", "generator_unordered", False)]
    for be, ra, uw in blocks:
        obs.append({"name": "fail/%s/%s/with=%s" % (be, ra, uw), "fn": "ob_fail", "mode": "S",
                    "params": {"backend": be, "return_as": ra, "use_with": uw, "K": K, "n0": 6 if tier == "quick" else 5,
                               "pre_dispatch": 2}, "timeout": 600 if tier == "quick" else 3400,
                    "bounds": "call 0: 6 tasks, failing task at any index; <=%d pre-emptions anywhere; 2x2 completion picks; "
                              "call 1: 1 or 4 tasks on the same object" % K})
    if tier == "thorough":
        for be, ra, uw in [("stub_noabort", "list", True), ("threading", "list", False)]:
            obs.append({"name": "stmt_fail/%s/%s/with=%s" % (be, ra, uw), "fn": "ob_fail", "mode": "S",
                        "params": {"backend": be, "return_as": ra, "use_with": uw, "K": 1, "n0": 4, "pre_dispatch": 2,
                                   "stmt": True}, "timeout": 3400,
                        "bounds": "statement-level switch points: call 0 with 4 tasks fails at any index, one pre-emption before "
                                  "any statement, then a second call"})
    # custom backends may run completion callbacks concurrently (e.g. concurrent.futures done-callbacks fire in the
    # worker threads): two callback threads
    for be, ra, uw in [("stub_noabort", "list", True), ("stub_cb", "list", False), ("stub_noabort", "generator_unordered", True)]:
        obs.append({"name": "fail2cb/%s/%s/with=%s" % (be, ra, uw), "fn": "ob_fail", "mode": "S",
                    "params": {"backend": be, "return_as": ra, "use_with": uw, "K": 1, "n0": 4, "pre_dispatch": 2,
                               "cb_threads": 2}, "timeout": 900,
                    "bounds": "two concurrent callback threads: call 0 (4 tasks) fails at any index; one pre-emption anywhere; "
                              "2x2 picks (completion and thread choices); then a 4-task call"})
    for ra in ("list", "generator"):
        obs.append({"name": "sequential/%s" % ra, "fn": "ob_sequential", "mode": "S",
                    "params": {"backend": "threading", "return_as": ra}, "timeout": 300,
                    "bounds": "n_jobs=1, 1..5 tasks, failing task at any index, verbose in {0,1,11,51}; then a 3-task call"})
    for be, ra, pdp in [("threading", "list", 2), ("loky", "generator", 2), ("stub_legacy", "list", 2), ("stub_noabort", "list", 2),
                        ("threading", "list", "all"), ("loky", "generator", "all")]:
        obs.append({"name": "iterfail/%s/%s/pre=%s" % (be, ra, pdp), "fn": "ob_iterfail", "mode": "S",
                    "params": {"backend": be, "return_as": ra, "n0": 8, "pre_dispatch": pdp}, "timeout": 600,
                    "bounds": "iterator raises at item 0..6 of 8, or its __iter__ raises; one pre-emption anywhere; then a 3-task call"})
    for be, ra in [("threading", "list"), ("loky", "list"), ("stub_cb", "generator"), ("threading", "generator_unordered")]:
        obs.append({"name": "timeout/%s/%s" % (be, ra), "fn": "ob_timeout", "mode": "S",
                    "params": {"backend": be, "return_as": ra, "n0": 5}, "timeout": 600,
                    "bounds": "5 tasks, batch 0..4 never completes, timeout in {0.05 s, 0, 0.0}, one pre-emption anywhere"})
    for be, uw in [("threading", True), ("loky", False)]:
        obs.append({"name": "history/%s/with=%s" % (be, uw), "fn": "ob_history", "mode": "S",
                    "params": {"backend": be, "use_with": uw}, "timeout": 600,
                    "bounds": "3 calls of 4 tasks, each failing (at task 0..3) or not (8 patterns); one pre-emption at every "
                              "fifth switch point"})
    return obs
