"""C01 - Parallel returns what the sequential loop returns, in order, each task once.

The real Parallel / BatchCompletionCallBack / BatchedCalls code and the real ThreadingBackend,
MultiprocessingBackend and LokyBackend classes (their pools replaced by parsim's simulated pool / executor), plus a
minimal ParallelBackendBase subclass in both flavours, run under parsim's two-thread deterministic scheduler.
  sched/<config> (S)  symbolic schedule: positions of K pre-emptions among the switch points, completion-order
                      picks, number of tasks.  The solver enumerates the schedule space completely; each schedule
                      is one deterministic run of the real code.
  auto/<backend> (S)  batch_size='auto' on the real AutoBatchingMixin with per-batch task durations as selectors
                      (fast / slow), so that the batch size grows and shrinks during the call.
  counters (S)        dispatch_one_batch's batch slicing on every (input length, n_jobs, batch_size, lookahead/tail)
                      in the bound: the queued batches partition the input in order.
Oracle: results == [f(i)] in submission order (generator_unordered: as a multiset), the execution log is a
permutation of the tasks (each exactly once), no hang, no exception in the callback thread.
"""
from symx import H
from harness import parlib

PROPERTY = "C01"
DESIGN_REF = "DESIGN.md section 4.1"
TECHNIQUE = ("solver-enumerated schedules (CrossHair+z3 selectors: pre-emption points, completion order, sizes) driving "
             "the real Parallel and backend classes on a deterministic two-thread simulator; batch arithmetic symbolic")
LEVEL_TEXT = ("For every configuration block (5 backends x return_as x pre_dispatch x batch_size) every schedule with <= K "
              "pre-emptions (quick K=1, thorough K=2) at any switch point, every completion order (3 symbolic picks) and "
              "0..N tasks is executed on the real code: results, order and exactly-once hold, nothing hangs.")
LEVEL_NOTE = ("Trusted: CrossHair/z3 for completeness of the schedule enumeration; parsim (switch points at lock "
              "operations, clock, pool/backend entry points, iterator, task start; one callback thread as in the real "
              "backends). Outside: pre-emption between two bytecodes that are not switch points, memory-model effects, "
              "real pools/processes, more than K pre-emptions, more than N tasks.")
EXPLANATION = "Bounded schedule exploration of the real Parallel code on a simulated pool; solver covers the schedule space."
STUBS = ["parsim: SimLock for Parallel._lock, SimTime for joblib.parallel.time, SimPool/SimExecutor for the pools",
         "warnings cut"]
ASSUMES = ["callbacks of one Parallel object are serialised on one thread (true of ThreadPool result handler and loky "
           "executor manager)", "context switches only at switch points"]
OUTSIDE = ["more than K pre-emptions", "statement-level pre-emption inside lock-free regions", "real worker processes"]

_BASE = {}


def _cfg(params, n_tasks):
    return dict(backend=params["backend"], n_workers=params.get("n_workers", 2), pre_dispatch=params.get("pre_dispatch", 3),
                verbose=params.get("verbose", 0), batch_size=params.get("batch_size", 1), return_as=params.get("return_as", "list"),
                calls=[dict(n_tasks=n_tasks)], durations=params.get("durations", ()), stmt=params.get("stmt", False))


def prepare(params):
    if "backend" not in params:
        return
    _BASE["steps"] = {}
    for n in params.get("task_counts", [5]):
        o = parlib.run(_cfg(params, n), {})
        _BASE["steps"][n] = o.steps + 6


def check_outcome(o, n_tasks, return_as, second=None):
    probs = []
    if o.hang:
        probs.append("hang: %s" % o.hang)
    if o.cb_errors:
        probs.append("callback thread raised: %r" % (o.cb_errors,))
    if not o.calls:
        probs.append("call did not finish")
        return probs
    rec = o.calls[0]
    want = [(0, i) for i in range(n_tasks)]
    if rec["exc"] is not None:
        probs.append("call raised %s: %s" % (type(rec["exc"]).__name__, rec["exc"]))
    else:
        got = list(rec["result"])
        if return_as == "generator_unordered":
            if sorted(got) != want:
                probs.append("results %r are not a permutation of %r" % (got, want))
        elif got != want:
            probs.append("results %r, expected %r" % (got, want))
    if second is not None:
        want2 = [(1, i) for i in range(second)]
        if len(o.calls) < 2 or o.calls[1]["exc"] is not None or list(o.calls[1]["result"] or []) != want2:
            probs.append("second call: %r" % (o.calls[1] if len(o.calls) > 1 else None,))
        want = want + want2
        if o.exec_log != want:                  # sequential mode: in order, in the calling thread
            probs.append("tasks executed %r, expected %r in this order" % (o.exec_log, want))
        return probs
    if sorted(o.exec_log) != want:
        probs.append("tasks executed %r, expected each of %d once" % (o.exec_log, n_tasks))
    return probs


def ob_sched(ni: int, pos0: int, pos1: int, pk: int) -> bool:
    """
    pre: 0 <= ni <= 5
    pre: -1 <= pos0 <= 2000 and -1 <= pos1 <= 2000
    pre: 0 <= pk <= 8
    post: _
    """
    H.enter()
    counts = H.P("task_counts")
    K = H.P("K", 1)
    H.assume(ni < len(counts))
    n = counts[H.select(ni, 0, len(counts) - 1)]
    steps = _BASE["steps"][n]
    H.assume(pos0 <= steps and pos1 <= steps)
    if K < 2:
        H.assume(pos1 == -1)
    else:
        # second pre-emption at every third later switch point; 3 pick patterns
        H.assume(pos1 == -1 or (pos0 < pos1 and pos1 % 3 == 0))
        H.assume(pos0 != -1 or pos1 == -1)
        H.assume(pk <= 2)
    p0 = H.select_bisect(pos0, -1, steps)
    p1 = H.select_bisect(pos1, -1, steps) if K >= 2 else -1
    pkv = H.select(pk, 0, 8)
    picks = [pkv % 3, pkv // 3]
    with H.native():
        cfg = _cfg(H.PARAMS, n)
        pre = [(p, 0) for p in (p0, p1) if p >= 0]
        o = parlib.run(cfg, dict(preempt=pre, picks=picks))
        probs = check_outcome(o, n, cfg["return_as"])
        for m in probs:
            H.note("n_tasks=%d preempt=%r picks=%r: %s" % (n, pre, picks, m))
        return H.verdict(not probs)


SEQ_BATCH = [1, 2, 3, "auto"]
SEQ_VERBOSE = [0, 1, 11, 51]
SEQ_RETURN = ["list", "generator", "generator_unordered"]


def ob_sequential(n_tasks: int, bs: int, vb: int, ra: int, has_len: bool) -> bool:
    """
    pre: 0 <= n_tasks <= 9
    pre: 0 <= bs <= 3 and 0 <= vb <= 3 and 0 <= ra <= 2
    post: _
    """
    H.enter()
    # n_jobs=1 (also what every backend falls back to for one worker): the loop runs in the calling thread
    n, b, v, r = H.select(n_tasks, 0, 9), H.select(bs, 0, 3), H.select(vb, 0, 3), H.select(ra, 0, 2)
    hl = bool(has_len)
    with H.native():
        params = dict(H.PARAMS)
        params.update(n_workers=1, batch_size=SEQ_BATCH[b], verbose=SEQ_VERBOSE[v], return_as=SEQ_RETURN[r])
        cfg = _cfg(params, n)
        cfg["calls"] = [dict(n_tasks=n, has_len=hl), dict(n_tasks=2)]
        o = parlib.run(cfg, {})
        probs = check_outcome(o, n, cfg["return_as"], second=2)
        for m in probs:
            H.note("n_jobs=1 n_tasks=%d batch_size=%r verbose=%d return_as=%s has_len=%r: %s" % (
                n, SEQ_BATCH[b], SEQ_VERBOSE[v], SEQ_RETURN[r], hl, m))
        return H.verdict(not probs)


def ob_auto(n_tasks: int, slow_from: int, slow_len: int, slow_kind: int, pick0: int) -> bool:
    """
    pre: 0 <= n_tasks <= 5
    pre: 0 <= slow_from <= 15 and 1 <= slow_len <= 3
    pre: 0 <= slow_kind <= 1
    pre: 0 <= pick0 <= 1
    post: _
    """
    H.enter()
    # task durations drive the real AutoBatchingMixin heuristic: a run of slow tasks anywhere in the input makes the
    # batch size shrink after it has grown
    n = [1, 5, 9, 13, 17, 24][H.select(n_tasks, 0, 5)]
    sf, sl = H.select(slow_from, 0, 15), H.select(slow_len, 1, 3)
    dv = [0.3, 30.0][H.select(slow_kind, 0, 1)]
    pk = H.select(pick0, 0, 1)
    with H.native():
        params = dict(H.PARAMS)
        ds = [dv if sf <= i < sf + sl else 0.0 for i in range(30)]
        params["durations"] = ds
        cfg = _cfg(params, n)
        o = parlib.run(cfg, dict(preempt=[], picks=[pk]))
        probs = check_outcome(o, n, cfg["return_as"])
        for m in probs:
            H.note("auto n_tasks=%d durations=%r: %s" % (n, ds[:n], m))
        return H.verdict(not probs)


def ob_counters(n_items: int, n_jobs: int, batch_size: int, is_tail: bool) -> bool:
    """
    pre: 0 <= n_items <= 20
    pre: 1 <= n_jobs <= 4
    pre: 1 <= batch_size <= 4
    post: _
    """
    H.enter()
    # dispatch_one_batch on a recording backend: the batches put in the local queue partition the slice taken
    # from the iterator, in order, without loss.  (Traced with symbolic sizes the islice/slicing C boundaries
    # realise every value and fork per slice: 5000 paths in 600 s without exhausting; hence selector mode.)
    n_items, n_jobs, batch_size = H.select(n_items, 0, 20), H.select(n_jobs, 1, 4), H.select(batch_size, 1, 4)
    is_tail = bool(is_tail)
    with H.native():
        return H.verdict(_counters(n_items, n_jobs, batch_size, is_tail))


def _counters(n_items, n_jobs, batch_size, is_tail):
    import itertools
    import joblib.parallel as jp
    from joblib._parallel_backends import ParallelBackendBase
    submitted = []

    class Rec(ParallelBackendBase):
        supports_retrieve_callback = True

        def effective_n_jobs(self, n):
            return n_jobs

        def configure(self, n_jobs=1, parallel=None, **kw):
            self.parallel = parallel
            return n_jobs

        def submit(self, func, callback=None):
            submitted.append(func)
            return object()

        def retrieve_result_callback(self, out):
            return out

    p = jp.Parallel(n_jobs=2, backend=Rec(nesting_level=0), batch_size=1)
    p._reset_run_tracking()
    p._call_id = "x"
    p._cached_effective_n_jobs = n_jobs
    p.batch_size = batch_size
    p._pickle_cache = {}
    src = iter([(abs, (i,), {}) for i in range(24)])
    it = itertools.islice(src, n_items)
    p._original_iterator = it if is_tail else None
    import queue
    p._ready_batches = queue.Queue()
    rounds = 0
    while p.dispatch_one_batch(it):
        rounds += 1
        if rounds > 70:
            H.note("dispatch_one_batch does not terminate")
            return False
    items = [t for b in submitted for t in b.items]
    ok = [a[0] for _, a, _ in items] == list(range(n_items))
    ok = ok and all(len(b.items) >= 1 for b in submitted)
    ok = ok and p.n_dispatched_tasks == n_items and p.n_dispatched_batches == len(submitted)
    ok = ok and p._ready_batches.empty()
    if not ok:
        H.note("n_items=%r n_jobs=%r batch_size=%r: batches %r" % (
            n_items, n_jobs, batch_size, [len(b.items) for b in submitted]))
    return ok


def validate():
    rows = []
    for be in parlib.BACKENDS:
        o = parlib.run(dict(backend=be, n_workers=2, pre_dispatch=3, batch_size=1, return_as="list",
                            calls=[dict(n_tasks=4)]), {})
        rows.append(("parsim baseline run on %s" % be, check_outcome(o, 4, "list") == [], str(o.calls and o.calls[0]["result"])))
    # the simulated pool honours the real ThreadPool callback contract
    import multiprocessing.pool as mpp
    import threading
    res, ev = [], threading.Event()
    tp = mpp.ThreadPool(1)
    tp.apply_async(lambda: 1 / 0, (), callback=lambda r: (res.append(("cb", r)), ev.set()),
                   error_callback=lambda e: (res.append(("err", type(e).__name__)), ev.set()))
    ev.wait(5)
    tp.terminate()
    rows.append(("real ThreadPool calls error_callback with the exception", res == [("err", "ZeroDivisionError")], str(res)))
    return rows


def obligations(tier, seed):
    obs = []
    K = 1 if tier == "quick" else 2
    counts = [0, 1, 5] if tier == "quick" else [4, 6]
    blocks = []
    for be in parlib.BACKENDS:
        blocks.append((be, "list", 3, 1))
    blocks += [("threading", "list", "0.4*n_jobs", 1), ("loky", "generator", 0, 1),     # expressions that evaluate to 0
               ("threading", "generator", 3, 1), ("loky", "generator", 2, 1), ("stub_cb", "generator", 3, 1),
               ("threading", "list", "all", 1), ("loky", "list", "2*n_jobs", 2), ("stub_legacy", "list", "all", 2),
               ("threading", "generator_unordered", 3, 1), ("loky", "generator_unordered", 2, 1)]
    if tier == "thorough":
        blocks += [("multiprocessing", "list", "2*n_jobs", 2), ("stub_cb", "generator_unordered", "all", 1),
                   ("loky", "generator", 1, 1), ("threading", "list", 4, 2)]
    for be, ra, pd, bs in blocks:
        obs.append({"name": "sched/%s/%s/pre=%s/batch=%s" % (be, ra, pd, bs), "fn": "ob_sched", "mode": "S",
                    "params": {"backend": be, "return_as": ra, "pre_dispatch": pd, "batch_size": bs, "K": K,
                               "task_counts": counts, "n_workers": 2},
                    "timeout": 600 if tier == "quick" else 3400,
                    "bounds": "%r tasks, 2 workers, <=%d pre-emptions at any switch point, 2 completion picks in 0..2" % (counts, K)})
    if tier == "thorough":
        # statement-level switch points: joblib/parallel.py recompiled from its current source with a switch point
        # before every statement of the methods touching shared state (one pre-emption anywhere)
        for be, ra, pd in [("threading", "list", 3), ("loky", "generator", 2), ("stub_cb", "generator_unordered", 3)]:
            obs.append({"name": "stmt/%s/%s/pre=%s" % (be, ra, pd), "fn": "ob_sched", "mode": "S",
                        "params": {"backend": be, "return_as": ra, "pre_dispatch": pd, "batch_size": 1, "K": 1,
                                   "task_counts": [1, 5], "n_workers": 2, "stmt": True}, "timeout": 3400,
                        "bounds": "1 or 5 tasks, one pre-emption before ANY statement of Parallel/BatchCompletionCallBack "
                                  "methods (about 600 switch points), 2 picks in 0..2"})
    for be in ("multiprocessing", "loky"):
        obs.append({"name": "auto/%s" % be, "fn": "ob_auto", "mode": "S",
                    "params": {"backend": be, "return_as": "list", "pre_dispatch": "2*n_jobs", "batch_size": "auto"},
                    "timeout": 900,
                    "bounds": "batch_size='auto': 1/5/9/13/17/24 tasks, a run of 1..3 slow tasks (0.3 s or 30 s) starting at 0..15, 2 completion picks"})
    obs.append({"name": "sequential", "fn": "ob_sequential", "mode": "S", "params": {"backend": "threading"}, "timeout": 600,
                "bounds": "n_jobs=1: 0..9 tasks (sized or not), batch_size in {1,2,3,'auto'}, verbose in {0,1,11,51}, "
                          "return_as list/generator/generator_unordered; then a 2-task call"})
    obs.append({"name": "counters", "fn": "ob_counters", "mode": "S", "timeout": 600,
                "bounds": "dispatch_one_batch: input length 0..20, n_jobs 1..4, batch_size 1..4, lookahead or tail iterator"})
    return obs
