"""C15 - n_jobs bounds concurrency; nesting never multiplies worker processes.

T obligations (all arithmetic flows through z3 Ints):
  effn/<backend>     effective_n_jobs of every backend class: symbolic n_jobs, cpu count, daemon flag,
                     main-thread flag, nesting level, loky depth.
  init/<b>           Parallel(n_jobs, backend)._initialize_backend() with the pool constructors replaced by
                     recorders: 0 rejected, pool size == resolved n_jobs, 1 falls back to the calling thread.
  cpu_count          loky.cpu_count with symbolic os.cpu_count() (or None), affinity, LOKY_MAX_CPU_COUNT,
                     cgroup quota (the float ceil is cut and discharged as a QF_FP lemma).
  nested/<b>         get_nested_backend chain from every backend at symbolic nesting level; the inner
                     Parallel() resolved inside BatchedCalls.__call__ gets the nested backend.
Lemma: ceil(q/p) >= 1 and <= q for integers 1 <= q,p <= 2^31 as IEEE doubles.
"""
import os
import types
from typing import Optional

from symx import H

PROPERTY = "C15"
DESIGN_REF = "DESIGN.md section 4.15"
TECHNIQUE = ("bounded symbolic execution (CrossHair+z3) of effective_n_jobs/configure/cpu_count/get_nested_backend "
             "with symbolic n_jobs, cpu counts and environment flags; QF_FP lemma for the cgroup ceil")
LEVEL_TEXT = ("All n_jobs in [-130,130] (and None), cpu counts 1..64, every flag combination: the resolved worker count "
              "obeys the documented arithmetic for each backend class, the pool is built with exactly that size, "
              "cpu_count() is >= 1 and never exceeds os count / affinity / LOKY_MAX_CPU_COUNT / cgroup quota, and the "
              "default nested backends are threads at level 1 and sequential beyond - all by exhausted path trees.")
LEVEL_NOTE = ("Trusted: CrossHair/z3; stubs for multiprocessing.current_process, threading main-thread test, pool "
              "constructors, os/affinity/cgroup files. Outside: that a pool of size k really runs <= k tasks at once "
              "(ThreadPool / loky internals), psutil fallback, Windows cap, physical-core counting.")
EXPLANATION = "Resolved n_jobs arithmetic and nested-backend selection decided symbolically on the real backend classes."
STUBS = ["joblib._parallel_backends.cpu_count -> symbolic int", "mp.current_process().daemon -> symbolic bool",
         "backend.in_main_thread -> symbolic bool", "process_executor._CURRENT_DEPTH -> symbolic int",
         "ThreadPool/MemmappingPool/get_memmapping_executor -> size recorders",
         "loky context: os.cpu_count/sched_getaffinity/environ/cgroup file -> symbolic values; math.ceil cut"]
ASSUMES = ["-130 <= n_jobs <= 130", "1 <= cpus <= 64", "cgroup quota/period positive ints"]
OUTSIDE = ["actual scheduling inside real pools", "psutil affinity fallback", "only_physical_cores=True"]


class _Shim:
    def __init__(self, base, **over):
        self.__dict__["_base"] = base
        self.__dict__.update(over)

    def __getattr__(self, name):
        return getattr(self._base, name)


class _Patch:
    """Replace module globals for the duration of one path (restored even on IgnoreAttempt)."""

    def __init__(self):
        self.saved = []

    def set(self, mod, name, value):
        self.saved.append((mod, name, mod.__dict__.get(name, _Patch)))
        setattr(mod, name, value)

    def __enter__(self):
        return self

    def __exit__(self, *a):
        for mod, name, old in reversed(self.saved):
            if old is _Patch:
                delattr(mod, name)
            else:
                setattr(mod, name, old)
        return False


def _make_backend(kind, level):
    import joblib._parallel_backends as pb
    cls = {"threading": pb.ThreadingBackend, "multiprocessing": pb.MultiprocessingBackend,
           "loky": pb.LokyBackend, "sequential": pb.SequentialBackend}[kind]
    return cls(nesting_level=level)


def _env(patch, cpus, daemon, depth):
    import joblib._parallel_backends as pb
    from joblib.externals.loky import process_executor
    patch.set(pb, "cpu_count", lambda: cpus)
    patch.set(pb, "mp", _Shim(pb.mp, current_process=lambda: types.SimpleNamespace(daemon=daemon)))
    patch.set(pb, "warnings", _Shim(pb.warnings, warn=lambda *a, **k: None))
    patch.set(pb, "inside_dask_worker", lambda: False)
    patch.set(process_executor, "_CURRENT_DEPTH", depth)


def _expected(kind, n_jobs, cpus, daemon, main, level, depth):
    """Documented resolution.  Returns ('raise',) | ('value', v)."""
    if n_jobs == 0:
        return ("raise",)
    if kind == "sequential":
        return ("value", 1)
    if n_jobs is None:
        return ("value", 1)
    constrained = False
    if kind in ("multiprocessing", "loky"):
        if daemon:
            constrained = True
        if kind == "multiprocessing" and depth > 0:
            constrained = True
        if not (main or level == 0):
            constrained = True
    if constrained:
        return ("value", 1)
    if n_jobs < 0:
        v = cpus + 1 + n_jobs
        return ("value", v if v >= 1 else 1)
    return ("value", n_jobs)


def ob_effn(n_jobs: int, none_jobs: bool, cpus: int, daemon: bool, main: bool, level: int, depth: int) -> bool:
    """
    pre: -130 <= n_jobs <= 130
    pre: 1 <= cpus <= 64
    pre: 0 <= level <= 3
    pre: 0 <= depth <= 2
    post: _
    """
    H.enter()
    kind = H.P("backend")
    nj = None if none_jobs else n_jobs
    with _Patch() as p:
        _env(p, cpus, daemon, depth)
        be = _make_backend(kind, level)
        be.in_main_thread = lambda: main
        exp = _expected(kind, nj, cpus, daemon, main, level, depth)
        try:
            r = be.effective_n_jobs(nj)
        except ValueError:
            return H.verdict(exp == ("raise",), "ValueError for n_jobs=%r" % (nj,))
    if exp == ("raise",):
        # A process backend may answer 1 for n_jobs == 0 in a constrained context: configure() then falls
        # back to SequentialBackend, whose own effective_n_jobs(0) raises (checked end-to-end by init/*).
        return H.verdict(kind in ("multiprocessing", "loky") and r == 1, "n_jobs == 0 accepted, returned %r" % (r,))
    ok = (r == exp[1]) and r >= 1
    if nj is not None and nj > 0:
        ok = ok and r <= nj
    return H.verdict(ok, "effective_n_jobs(%r)=%r expected %r (cpus=%r)" % (nj, r, exp[1], cpus))


class _FakeParallel:
    _id = "verif"
    verbose = 0

    def _print(self, *a):
        pass


def ob_init(n_jobs: int, cpus: int, daemon: bool, main: bool, level: int, depth: int) -> bool:
    """
    pre: -130 <= n_jobs <= 130
    pre: 1 <= cpus <= 64
    pre: 0 <= level <= 2
    pre: 0 <= depth <= 1
    post: _
    """
    H.enter()
    import joblib._parallel_backends as pb
    import joblib.parallel as jp
    kind = H.P("backend")
    made = []

    def rec(kindname):
        def ctor(n, *a, **k):
            made.append((kindname, n))
            return types.SimpleNamespace(_temp_folder_manager=None, close=lambda: None, terminate=lambda: None)
        return ctor

    with _Patch() as p:
        _env(p, cpus, daemon, depth)
        p.set(pb, "ThreadPool", rec("threadpool"))
        p.set(pb, "MemmappingPool", rec("mmpool"))
        p.set(pb, "get_memmapping_executor", rec("loky"))
        p.set(pb, "gc", _Shim(pb.gc, collect=lambda: None))
        be = _make_backend(kind, level)
        be.in_main_thread = lambda: main
        exp = _expected(kind, n_jobs, cpus, daemon, main, level, depth)
        try:
            par = jp.Parallel(n_jobs=n_jobs, backend=be)
            got = par._initialize_backend()      # what Parallel.__call__ does first
            if isinstance(par._backend, pb.ThreadingBackend):
                par._backend._get_pool()
        except ValueError:
            return H.verdict(exp == ("raise",), "ValueError for n_jobs=%r" % (n_jobs,))
    if exp == ("raise",):
        return H.verdict(False, "Parallel(n_jobs=0) was not rejected")
    if exp[1] == 1:
        # runs in the calling thread: sequential backend, no pool of any kind
        ok = got == 1 and isinstance(par._backend, pb.SequentialBackend) and not made
    else:
        ok = got == exp[1] and len(made) == 1 and made[0][1] == exp[1] and type(par._backend) is type(be)
    return H.verdict(ok, "Parallel(n_jobs=%r)._initialize_backend() -> %r on %s, pools %r, expected %r" % (
        n_jobs, got, type(par._backend).__name__, made, exp))


class _Sized:
    def __init__(self, n):
        self.n = n

    def __len__(self):
        return self.n


def ob_cpu_count(os_cpus: int, os_none: bool, aff: int, has_aff: bool, loky: int, has_loky: bool,
                 cg: int, has_cg: bool, cg_max: bool, phys: bool, pc: int) -> bool:
    """
    pre: 1 <= pc <= os_cpus
    pre: 1 <= os_cpus <= 512
    pre: 1 <= aff <= 512
    pre: -4 <= loky <= 600
    pre: 1 <= cg <= 600
    post: _
    """
    H.enter()
    import joblib.externals.loky.backend.context as ctx
    fos = types.SimpleNamespace()
    fos.cpu_count = lambda: None if os_none else os_cpus
    if has_aff:
        fos.sched_getaffinity = lambda pid: _Sized(aff)
    env = {}
    if has_loky:
        env["LOKY_MAX_CPU_COUNT"] = loky
    fos.environ = env
    fos.path = types.SimpleNamespace(exists=lambda pth: has_cg and pth == "/sys/fs/cgroup/cpu.max")

    class _R:
        def strip(self):
            return self

        def split(self):
            return ("max", 100000) if cg_max else (200000, 100000)

    class _F:
        def __enter__(self):
            return self

        def __exit__(self, *a):
            return False

        def read(self):
            return _R()

    class _NoPsutil:
        def find_spec(self, *a):
            return None
    with _Patch() as p:
        p.set(ctx, "os", fos)
        p.set(ctx, "open", lambda pth: _F())
        # cut: math.ceil(quota/period) is a float kernel -> symbolic int >= 1 (lemma/cgroup_ceil)
        p.set(ctx, "math", _Shim(ctx.math, ceil=lambda x: cg))
        p.set(ctx, "warnings", _Shim(ctx.warnings, warn=lambda *a, **k: None))
        import sys as _sys
        saved_psutil = _sys.modules.get("psutil", _Patch)
        _sys.modules["psutil"] = None       # `import psutil` raises ImportError: fallback path
        p.set(ctx, "_count_physical_cores", lambda: (pc, None))      # what lscpu / sysctl would report
        try:
            r = ctx.cpu_count(only_physical_cores=True) if phys else ctx.cpu_count()
        finally:
            if saved_psutil is _Patch:
                del _sys.modules["psutil"]
            else:
                _sys.modules["psutil"] = saved_psutil
    o = 1 if os_none else os_cpus
    bound = o
    if has_aff and aff < bound:
        bound = aff
    if has_loky and loky < bound:
        bound = loky
    if has_cg and not cg_max and cg < bound:
        bound = cg
    exp = bound if bound >= 1 else 1
    H.assume(pc <= o)                         # a machine has at most as many physical as logical cores
    if phys and not bound < o:
        exp = pc                              # no user limit below the machine: the number of physical cores
    return H.verdict(r == exp and r >= 1, "cpu_count(only_physical_cores=%r)=%r expected %r" % (bool(phys), r, exp))


def ob_cpu_count_twice_native(os_cpus: int, aff1: int, aff2: int, loky1: int, loky2: int, has_loky: bool) -> bool:
    """
    pre: 1 <= os_cpus <= 4
    pre: 1 <= aff1 <= 4 and 1 <= aff2 <= 4
    pre: 1 <= loky1 <= 3 and 1 <= loky2 <= 3
    post: _
    """
    # same history, run natively per case: CrossHair makes functools caches transparent while tracing, so
    # memoisation slips (a stale answer served from a cache) are only visible in a native run
    H.enter()
    vals = [H.select(os_cpus, 1, 4), H.select(aff1, 1, 4), H.select(aff2, 1, 4), H.select(loky1, 1, 3), H.select(loky2, 1, 3)]
    hl = bool(has_loky)
    with H.native():
        return _cpu_twice(vals[0], vals[1], vals[2], vals[3], vals[4], hl)


def ob_cpu_count_twice(os_cpus: int, aff1: int, aff2: int, loky1: int, loky2: int, has_loky: bool) -> bool:
    """
    pre: 1 <= os_cpus <= 64
    pre: 1 <= aff1 <= 64 and 1 <= aff2 <= 64
    pre: 1 <= loky1 <= 64 and 1 <= loky2 <= 64
    post: _
    """
    H.enter()
    return _cpu_twice(os_cpus, aff1, aff2, loky1, loky2, has_loky)


def _cpu_twice(os_cpus, aff1, aff2, loky1, loky2, has_loky):
    # the environment changes between two calls (taskset / LOKY_MAX_CPU_COUNT set later): the second answer must
    # reflect the second environment
    import joblib.externals.loky.backend.context as ctx
    state = {"aff": aff1, "loky": loky1}
    fos = types.SimpleNamespace()
    fos.cpu_count = lambda: os_cpus
    fos.sched_getaffinity = lambda pid: _Sized(state["aff"])

    class _Env(dict):
        def get(self, k, d=None):
            if k == "LOKY_MAX_CPU_COUNT" and has_loky:
                return state["loky"]
            return d
    fos.environ = _Env()
    fos.path = types.SimpleNamespace(exists=lambda pth: False)
    with _Patch() as p:
        p.set(ctx, "os", fos)
        p.set(ctx, "warnings", _Shim(ctx.warnings, warn=lambda *a, **k: None))
        if hasattr(ctx._cpu_count_user, "cache_clear"):
            ctx._cpu_count_user.cache_clear()
        r1 = ctx.cpu_count()
        state["aff"], state["loky"] = aff2, loky2
        r2 = ctx.cpu_count()

    def want(aff, loky):
        b = os_cpus if os_cpus < aff else aff
        if has_loky and loky < b:
            b = loky
        return b if b >= 1 else 1
    ok = r1 == want(aff1, loky1) and r2 == want(aff2, loky2)
    return H.verdict(ok, "cpu_count() gave %r then %r, expected %r then %r" % (r1, r2, want(aff1, loky1), want(aff2, loky2)))


def ob_nested(level: int) -> bool:
    """
    pre: 0 <= level <= 3
    post: _
    """
    H.enter()
    import joblib._parallel_backends as pb
    kind = H.P("backend")
    be = _make_backend(kind, level)
    nb, nj = be.get_nested_backend()
    if level + 1 > 1:
        ok = isinstance(nb, pb.SequentialBackend)
    else:
        ok = isinstance(nb, pb.ThreadingBackend)
    ok = ok and nb.nesting_level == level + 1 and nj is None
    return H.verdict(ok, "nested backend of %s@%r is %r@%r" % (kind, level, type(nb).__name__, nb.nesting_level))


HINTS = [{}, {"prefer": "threads"}, {"prefer": "processes"}, {"require": "sharedmem"},
         {"prefer": "threads", "require": "sharedmem"}]    # processes + sharedmem is rejected as inconsistent (documented)


def ob_nested_parallel(level: int, hint: int) -> bool:
    """
    pre: 0 <= level <= 2
    pre: 0 <= hint <= 4
    post: _
    """
    H.enter()
    inner_n_jobs = H.P("inner_n_jobs")
    cpus = 4
    level = H.select(level, 0, 2)       # selector mode: the chain below has no symbolic data
    hints = HINTS[H.select(hint, 0, 4)]   # soft / hard hints passed by the nested calls: never a reason to oversubscribe
    with H.native():
        return H.verdict(_nested_chain(level, inner_n_jobs, cpus, hints))


def _nested_chain(level, inner_n_jobs, cpus, hints={}):
    import joblib._parallel_backends as pb
    import joblib.parallel as jp
    kind = H.P("backend")
    seen = []

    def task(depth):
        # what a Parallel() created inside a worker resolves to (without starting it), then what a
        # Parallel() created inside *its* tasks resolves to, and so on
        inner = jp.Parallel(n_jobs=inner_n_jobs, **hints)
        seen.append(inner._backend)
        if depth < 3:
            nested = inner._backend.get_nested_backend()
            jp.BatchedCalls([(task, (depth + 1,), {})], nested, None, {})()
        return 0

    with _Patch() as p:
        _env(p, cpus, False, 0)
        outer = _make_backend(kind, level)
        jp.BatchedCalls([(task, (1,), {})], outer.get_nested_backend(), None, {})()
    ok = len(seen) == 3
    for i, inner_be in enumerate(seen):
        lvl = level + 1 + i
        if lvl > 1:
            ok = ok and isinstance(inner_be, pb.SequentialBackend)
        else:
            ok = ok and isinstance(inner_be, pb.ThreadingBackend)
        if i == 0:
            ok = ok and inner_be.nesting_level == lvl
        ok = ok and not isinstance(inner_be, (pb.LokyBackend, pb.MultiprocessingBackend))
    if not ok:
        H.note("inner Parallels %r under %s@%r got %s" % (
            hints, kind, level, [(type(b).__name__, getattr(b, "nesting_level", None)) for b in seen]))
    return ok


def lemma_cgroup_ceil(params):
    """1 <= q,p <= 2^31 doubles: ceil(q/p) >= 1; with upper=True (q integral) also ceil(q/p) <= q."""
    import time
    import z3
    t0 = time.time()
    F = z3.Float64()
    q, pp = z3.FP("q", F), z3.FP("p", F)
    one, big = z3.FPVal(1.0, F), z3.FPVal(2.0 ** 31, F)
    dom = [z3.fpGEQ(q, one), z3.fpLEQ(q, big), z3.fpGEQ(pp, one), z3.fpLEQ(pp, big)]
    if params.get("upper"):
        dom.append(z3.fpEQ(z3.fpRoundToIntegral(z3.RTZ(), q), q))
    s = z3.Solver()
    s.set("timeout", 60000 if params.get("upper") else 600000)
    s.add(*dom)
    sanity = str(s.check())
    c = z3.fpRoundToIntegral(z3.RTP(), z3.fpDiv(z3.RNE(), q, pp))
    if params.get("upper"):
        s.add(z3.Not(z3.fpLEQ(c, q)))
    else:
        s.add(z3.Not(z3.fpGEQ(c, one)))
    r = str(s.check())
    out = {"queries": 2, "solver_s": round(time.time() - t0, 2), "sanity": sanity, "solver": "z3"}
    args = None
    if r == "sat":
        m = s.model()
        args = [float(z3.simplify(z3.fpToReal(m[x])).as_fraction()) for x in (q, pp)]
    if r == "unknown":
        # the division kernel stalls z3's bit-blaster: hand the same query (z3's own SMT-LIB rendering) to cvc5
        r, args = _cvc5(s.to_smt2(), ["q", "p"], 800)
        out.update(queries=3, solver="z3 (unknown after 60 s), then cvc5 binary", solver_s=round(time.time() - t0, 2))
    if r == "unsat":
        out["verdict"] = "confirmed"
    elif r == "sat":
        out.update(verdict="counterexample", args=args)
    else:
        out.update(verdict="inconclusive", message="solver: " + r)
    return out


def _cvc5(smt2, names, seconds):
    """Run the cvc5 binary on an SMT-LIB text; returns (result, [float values of names] or None)."""
    import re
    import shutil
    import struct
    import subprocess
    import tempfile
    exe = shutil.which("cvc5")
    if exe is None:
        return "unknown (no cvc5 binary)", None
    d = tempfile.mkdtemp(prefix="verif_lemma_")
    try:
        path = os.path.join(d, "q.smt2")
        text = "(set-option :produce-models true)\n" + smt2.replace("(check-sat)", "") + "\n(check-sat)\n"
        with open(path, "w") as f:
            f.write(text)
        p = subprocess.run([exe, "--tlimit=%d" % (seconds * 1000), path], capture_output=True, text=True, timeout=seconds + 60)
        res = (p.stdout.strip().splitlines() or ["unknown"])[0].strip()
        if "(error" in p.stdout or res not in ("sat", "unsat"):
            return "unknown (%s)" % (p.stdout + p.stderr).strip()[:200], None
        if res == "unsat":
            return res, None
        with open(path, "a") as f:
            f.write("(get-value (%s))\n" % " ".join(names))
        p = subprocess.run([exe, "--tlimit=%d" % (seconds * 1000), path], capture_output=True, text=True, timeout=seconds + 60)
        vals = []
        for n in names:
            m = re.search(r"\(%s \(fp #b([01]) #b([01]+) #b([01]+)\)\)" % re.escape(n), p.stdout)
            if not m:
                return "unknown (cannot parse the cvc5 model: %s)" % p.stdout[:200], None
            vals.append(struct.unpack(">d", int(m.group(1) + m.group(2) + m.group(3), 2).to_bytes(8, "big"))[0])
        return "sat", vals
    finally:
        shutil.rmtree(d, ignore_errors=True)


def lemma_cgroup_ceil_replay(q, p):
    import math
    c = math.ceil(int(q) / int(p))
    return 1 <= c <= int(q)


def validate():
    import joblib._parallel_backends as pb
    out = []
    be = pb.ThreadingBackend(nesting_level=0)
    out.append(("upstream: threading n_jobs=3", be.effective_n_jobs(3) == 3, ""))
    out.append(("expected model vs real cpu_count", _expected("threading", -1, pb.cpu_count(), False, True, 0, 0)
                == ("value", be.effective_n_jobs(-1)), ""))
    return out


def obligations(tier, seed):
    obs = []
    for b in ("threading", "multiprocessing", "loky", "sequential"):
        obs.append({"name": "effn/%s" % b, "fn": "ob_effn", "params": {"backend": b}, "timeout": 240,
                    "bounds": "n_jobs in [-130,130] or None, cpus 1..64, daemon/main flags, nesting 0..3, depth 0..2"})
    for b in ("threading", "multiprocessing", "loky"):
        obs.append({"name": "init/%s" % b, "fn": "ob_init", "params": {"backend": b}, "timeout": 300,
                    "bounds": "Parallel(n_jobs, backend)._initialize_backend(): n_jobs in [-130,130], cpus 1..64, "
                              "daemon/main flags, nesting 0..2, loky depth 0..1; pool constructors record their size"})
        obs.append({"name": "nested/%s" % b, "fn": "ob_nested", "params": {"backend": b}, "timeout": 60,
                    "bounds": "nesting level 0..3"})
        for nj in (-1, 2):
            obs.append({"name": "nested_parallel/%s/inner%d" % (b, nj), "fn": "ob_nested_parallel",
                        "params": {"backend": b, "inner_n_jobs": nj}, "timeout": 120, "mode": "S",
                        "bounds": "outer nesting level 0..2 symbolic, inner Parallel(n_jobs=%d) with prefer in {None, threads, processes} and require in {None, sharedmem}, three levels deep" % nj})
    obs.append({"name": "cpu_count", "fn": "ob_cpu_count", "timeout": 240,
                "bounds": "os.cpu_count() None or 1..512, affinity 1..512 or absent, LOKY_MAX_CPU_COUNT -4..600 or "
                          "unset, cgroup limit 1..600 / 'max' / absent"})
    obs.append({"name": "cpu_count_twice_native", "fn": "ob_cpu_count_twice_native", "mode": "S", "timeout": 300,
                "bounds": "as cpu_count_twice with values 1..4, each case run natively (memoisation visible)"})
    obs.append({"name": "cpu_count_twice", "fn": "ob_cpu_count_twice", "timeout": 240,
                "bounds": "two consecutive cpu_count() calls, affinity / LOKY_MAX_CPU_COUNT changing in between (1..64)"})
    obs.append({"name": "executor_reuse", "fn": "ob_reuse", "harness": "harness.C10", "mode": "S", "timeout": 300,
                "bounds": "loky reusable executor: previous / requested workers 1..4, broken, shut down, started, same arguments: "
                          "the executor handed out has exactly the requested number of workers"})
    obs.append({"name": "lemma/cgroup_ceil_ge1", "fn": "lemma_cgroup_ceil", "kind": "lemma", "timeout": 300,
                "params": {"upper": False}, "bounds": "1 <= quota, period <= 2^31 (all doubles in range)"})
    if tier == "thorough":
        obs.append({"name": "lemma/cgroup_ceil_le_q", "fn": "lemma_cgroup_ceil", "kind": "lemma", "timeout": 900,
                    "params": {"upper": True}, "bounds": "1 <= quota (integral), period <= 2^31"})
    return obs
