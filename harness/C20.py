"""C20 - tracked temporary resources are deleted exactly when their last user is gone.

The tracker loop resource_tracker.main() is run in-process on a scripted pipe (stubbed sys/signal/open and
recording clean-up functions).
  names (S)      REGISTER(name0) ; MAYBE_UNLINK(name1) ; EOF with names built from 1..3 segments joined by the
                 wire separator ':' (symbolic z3 strings were tried first: 200 s were not enough to exhaust
                 2-character names, so the name *structure* is what is symbolic now).
  seq/L (S)      every sequence of L requests over {REGISTER, UNREGISTER, MAYBE_UNLINK, PROBE, unknown command,
                 blank line, undecodable garbage} x 2 names x {file, folder, unknown type}, then EOF, against a
                 reference refcount model; the loop must consume every line.
  induct (S)     symbolic pre-state (refcounts 0..3 of both names, built by a REGISTER prefix) + one arbitrary
                 request + EOF.
  client/* (S)   TemporaryResourcesManager._clean_temporary_resources / _unlink_temporary_resources with a
                 recording tracker.
"""
import io
import types

from symx import H

PROPERTY = "C20"
DESIGN_REF = "DESIGN.md section 4.20"
TECHNIQUE = ("bounded symbolic execution (CrossHair+z3) of resource_tracker.main on a scripted pipe: symbolic resource "
             "names (z3 strings) and solver-driven exhaustive request sequences against a refcount model")
LEVEL_TEXT = ("Every request sequence up to L (quick 2 + induction step from refcounts 0..3; thorough 4) over 7 request "
              "kinds x 2 names x 3 types followed by EOF deletes exactly what the reference refcount model deletes, in "
              "the files-before-folders order at shutdown, and the loop survives every line; with symbolic names the "
              "solver searches for names that break parsing or equality.")
LEVEL_NOTE = ("Trusted: CrossHair/z3 (incl. its string theory for the symbolic-name obligation), the refcount model. "
              "Stubs: sys.stdin/stdout/excepthook, signal, open(fd), warnings, _CLEANUP_FUNCS (recorders). Outside: the "
              "real tracker process, pipes and atomicity of writes, client death other than EOF, semlock type.")
EXPLANATION = "resource_tracker.main driven in-process through stubs; deletions compared with a refcount model."
STUBS = ["resource_tracker.sys/signal/open/warnings replaced by in-memory stand-ins", "_CLEANUP_FUNCS['file'|'folder'] record instead of deleting"]
ASSUMES = ["names are ASCII without newline (what the client can put on one pipe line)", "client death == EOF on the pipe"]
OUTSIDE = ["OS pipe semantics (interleaved partial writes)", "tracker process crash/restart", "sequences longer than the bound"]

CMDS = ["REGISTER", "UNREGISTER", "MAYBE_UNLINK", "PROBE", "BOGUS", "<blank>", "<garbage>"]
NAMES = ["/t/a", "/t/d"]
TYPES = ["file", "folder", "weird"]


class Lines:
    def __init__(self, lines):
        self.lines = lines
        self.i = 0
        self.eof_seen = False

    def __enter__(self):
        return self

    def __exit__(self, *a):
        return False

    def readline(self):
        if self.i >= len(self.lines):
            self.eof_seen = True
            return b""
        ln = self.lines[self.i]
        self.i += 1
        return ln


def _warn_error(msg, *a, **k):
    # the tracker process inherits the client's warning filters: under -W error / PYTHONWARNINGS=error every
    # warnings.warn() call raises
    raise UserWarning(msg)


class TrackerKilled(Exception):
    pass


def run_tracker(lines, werr=False, fail=()):
    """Run the real main() on the given pipe content.  Returns (deleted, pipe).  `fail`: names whose clean-up raises
    (a folder that is already gone, ...) - the attempt is still recorded."""
    import joblib.externals.loky.backend.resource_tracker as rt
    deleted = []
    pipe = Lines(lines)
    ignored = set()

    def _signal(sig, handler):
        if handler == 1:
            ignored.add(int(sig))

    def _sigmask(how, sigs):
        # the tracker is spawned with SIGINT / SIGTERM blocked: one that arrived meanwhile is delivered at this point
        for sg in sigs:
            if int(sg) not in ignored:
                raise TrackerKilled("signal %d is unblocked while its default action (terminate) is still installed: "
                                    "a signal received during start-up kills the tracker, everything registered leaks" % int(sg))

    def _cleanup(kind):
        def fn(name):
            deleted.append((kind, name))
            if name in fail:
                raise FileNotFoundError(2, "No such file or directory", name)
        return fn
    saved = dict(sys=rt.sys, signal=rt.signal, open=rt.__dict__.get("open", None), funcs=dict(rt._CLEANUP_FUNCS),
                 warnings=rt.warnings)
    rt.sys = types.SimpleNamespace(stdin=io.StringIO(), stdout=io.StringIO(), platform="linux",
                                   excepthook=lambda *a: None, exc_info=lambda: (None, None, None))
    rt.signal = types.SimpleNamespace(signal=_signal, SIGINT=2, SIGTERM=15, SIG_IGN=1, SIG_UNBLOCK=1,
                                      pthread_sigmask=_sigmask)
    rt.open = lambda fd, mode: pipe
    rt.warnings = types.SimpleNamespace(warn=_warn_error if werr else (lambda *a, **k: None))
    rt._CLEANUP_FUNCS["file"] = _cleanup("file")
    rt._CLEANUP_FUNCS["folder"] = _cleanup("folder")
    try:
        rt.main(3, False)
    finally:
        rt.sys, rt.signal, rt.warnings = saved["sys"], saved["signal"], saved["warnings"]
        if saved["open"] is None:
            del rt.open
        else:
            rt.open = saved["open"]
        rt._CLEANUP_FUNCS.clear()
        rt._CLEANUP_FUNCS.update(saved["funcs"])
    return deleted, pipe


def model(reqs):
    """Reference: reqs = list of (cmd, name, rtype) with cmd None for lines that are not requests."""
    reg, out = {}, []
    for cmd, name, ty in reqs:
        if cmd is None or cmd == "PROBE" or cmd == "BOGUS" or ty not in ("file", "folder"):
            continue
        k = (ty, name)
        if cmd == "REGISTER":
            reg[k] = reg.get(k, 0) + 1
        elif cmd == "UNREGISTER":
            reg.pop(k, None)
        elif cmd == "MAYBE_UNLINK":
            if k in reg:
                reg[k] -= 1
                if reg[k] == 0:
                    del reg[k]
                    out.append(k)
    return out, [k for k in reg if k[0] == "file"], [k for k in reg if k[0] == "folder"]


def _line(c, n, t):
    cmd = CMDS[c]
    if cmd == "<blank>":
        return b"\n" if n == 0 else b"   \n", (None, None, None)
    if cmd == "<garbage>":
        return [b"\xff\xfe:x:file\n", b"REGISTER\n", b":\n"][t], (None, None, None)
    return ("%s:%s:%s\n" % (cmd, NAMES[n], TYPES[t])).encode("ascii"), (cmd, NAMES[n], TYPES[t])


def _check_seq(triples, werr=False, fail=()):
    lines, reqs = [], []
    for c, n, t in triples:
        ln, rq = _line(c, n, t)
        lines.append(ln)
        reqs.append(rq)
    try:
        got, pipe = run_tracker(lines, werr, fail)
    except Exception as e:
        H.note("the tracker died with %s: %s (warnings as errors: %r, failing clean-ups: %r); requests: %r" % (
            type(e).__name__, e, werr, list(fail), lines))
        return False
    out, rest_files, rest_folders = model(reqs)
    k = len(out)
    ok = True
    if not pipe.eof_seen or pipe.i != len(lines):
        H.note("the tracker stopped reading after %d of %d lines" % (pipe.i, len(lines)))
        ok = False
    if got[:k] != out:
        H.note("deleted while clients alive: %r, model: %r" % (got[:k], out))
        ok = False
    if sorted(got[k:k + len(rest_files)]) != sorted(rest_files) or sorted(got[k + len(rest_files):]) != sorted(rest_folders):
        H.note("shutdown sweep deleted %r, model: files %r then folders %r" % (got[k:], rest_files, rest_folders))
        ok = False
    if not ok:
        H.note("requests: %r" % (lines,))
    return ok


def ob_seq(c0: int, n0: int, t0: int, c1: int, n1: int, t1: int, c2: int, n2: int, t2: int,
           c3: int, n3: int, t3: int) -> bool:
    """
    pre: 0 <= c0 <= 6 and 0 <= c1 <= 6 and 0 <= c2 <= 6 and 0 <= c3 <= 6
    pre: 0 <= n0 <= 1 and 0 <= n1 <= 1 and 0 <= n2 <= 1 and 0 <= n3 <= 1
    pre: 0 <= t0 <= 2 and 0 <= t1 <= 2 and 0 <= t2 <= 2 and 0 <= t3 <= 2
    post: _
    """
    H.enter()
    L = H.P("L")
    first = H.P("first")        # the first request kind is fixed per obligation (parallelism)
    H.assume(c0 == first)
    if H.P("core_only", False):
        # (L = 4: 42^3 continuations do not fit the budget; the later requests range over the three real commands)
        H.assume(c1 <= 2 and c2 <= 2 and c3 <= 2)
    raw = [(c0, n0, t0), (c1, n1, t1), (c2, n2, t2), (c3, n3, t3)]
    for c, n, t in raw[L:]:
        H.assume(c == 0 and n == 0 and t == 0)
    triples = [(H.select(c, 0, 6), H.select(n, 0, 1), H.select(t, 0, 2)) for c, n, t in raw[:L]]
    with H.native():
        return H.verdict(_check_seq(triples))


def ob_induct(ka: int, kd: int, ta: int, c: int, n: int, t: int, werr: bool, fl: int) -> bool:
    """
    pre: 0 <= fl <= 2
    pre: 0 <= ka <= 3 and 0 <= kd <= 3
    pre: 0 <= ta <= 1
    pre: 0 <= c <= 6 and 0 <= n <= 1 and 0 <= t <= 2
    post: _
    """
    H.enter()
    ka, kd, ta = H.select(ka, 0, 3), H.select(kd, 0, 3), H.select(ta, 0, 1)
    step = (H.select(c, 0, 6), H.select(n, 0, 1), H.select(t, 0, 2))
    # pre-state: name a registered ka times with type ta, name d registered kd times as a folder
    triples = [(0, 0, ta)] * ka + [(0, 1, 1)] * kd + [step]
    we = bool(werr)                      # the client runs with warnings turned into errors, or not
    fail = [(), (NAMES[0],), (NAMES[1],)][H.select(fl, 0, 2)]      # the clean-up of one name raises (already gone)
    with H.native():
        return H.verdict(_check_seq(triples, we, fail))


def ob_counts(k_reg: int, k_unlink: int, folder: bool) -> bool:
    """
    pre: 0 <= k_reg <= 6 and 0 <= k_unlink <= 8
    post: _
    """
    H.enter()
    # traced: the tracker loop runs k_reg REGISTER and k_unlink MAYBE_UNLINK requests for one resource, both
    # counts symbolic.  Deleted exactly once: at the request that brings the count to zero, or at EOF if some
    # user remains; never when nothing was registered.
    ty = "folder" if folder else "file"
    reg = ("REGISTER:/t/a:%s\n" % ty).encode("ascii")
    unl = ("MAYBE_UNLINK:/t/a:%s\n" % ty).encode("ascii")
    lines = []
    i = 0
    while i < k_reg:
        lines.append(reg)
        i += 1
    i = 0
    while i < k_unlink:
        lines.append(unl)
        i += 1
    got, pipe = run_tracker(lines)
    want = [(ty, "/t/a")] if k_reg > 0 else []
    return H.verdict(pipe.eof_seen and got == want, "%r registrations, %r maybe_unlink: deleted %r" % (k_reg, k_unlink, got))


def _mkname(k, m):
    return ":".join("a" if (m >> i) & 1 else "" for i in range(k))


def ob_names(k0: int, m0: int, k1: int, m1: int, t0: bool, t1: bool, twice: bool) -> bool:
    """
    pre: 1 <= k0 <= 3 and 1 <= k1 <= 3
    pre: 0 <= m0 <= 7 and 0 <= m1 <= 7
    post: _
    """
    H.enter()
    # names are built from 1..3 segments ('a' or empty) joined by ':' - the separator of the wire format
    k0, k1 = H.select(k0, 1, 3), H.select(k1, 1, 3)
    H.assume(m0 < 2 ** k0 and m1 < 2 ** k1)
    name0, name1 = _mkname(k0, H.select(m0, 0, 7)), _mkname(k1, H.select(m1, 0, 7))
    with H.native():
        ty0 = "folder" if t0 else "file"
        ty1 = "folder" if t1 else "file"
        lines = [("REGISTER:%s:%s\n" % (name0, ty0)).encode("ascii")]
        if twice:
            lines.append(("REGISTER:%s:%s\n" % (name0, ty0)).encode("ascii"))
        lines.append(("MAYBE_UNLINK:%s:%s\n" % (name1, ty1)).encode("ascii"))
        got, pipe = run_tracker(lines)
        # whether the last user went away at once or the entry is left for the shutdown sweep, exactly the
        # registered resource - under exactly its name - is deleted once, and nothing else
        ok = pipe.eof_seen and got == [(ty0, name0)]
        return H.verdict(ok, "names %r/%r types %s/%s twice=%r: deleted %r" % (name0, name1, ty0, ty1, twice, got))


class _RecTracker:
    def __init__(self):
        self.calls = []

    def register(self, name, rtype):
        self.calls.append(("register", name, rtype))

    def unregister(self, name, rtype):
        self.calls.append(("unregister", name, rtype))

    def maybe_unlink(self, name, rtype):
        self.calls.append(("maybe_unlink", name, rtype))


def validate():
    out = []
    got, pipe = run_tracker([b"REGISTER:/t/a:file\n", b"REGISTER:/t/a:file\n", b"MAYBE_UNLINK:/t/a:file\n"])
    out.append(("two users, one gone: kept until EOF", got == [("file", "/t/a")] and pipe.eof_seen, str(got)))
    got, _ = run_tracker([b"REGISTER:/t/a:file\n", b"MAYBE_UNLINK:/t/a:file\n", b"MAYBE_UNLINK:/t/a:file\n"])
    out.append(("unbalanced maybe_unlink deletes once", got == [("file", "/t/a")], str(got)))
    out.append(("model agrees", model([("REGISTER", "x", "file"), ("MAYBE_UNLINK", "x", "file")]) == ([("file", "x")], [], []), ""))
    # the line format produced by the real client side
    import joblib.externals.loky.backend.resource_tracker as rt
    import os
    r, w = os.pipe()
    try:
        tr = rt.ResourceTracker()
        tr._fd = w
        tr._send("REGISTER", "/t/a", "file")
        data = os.read(r, 100)
    finally:
        os.close(r)
        os.close(w)
    out.append(("client line format", data.endswith(b"REGISTER:/t/a:file\n"), repr(data)))
    return out


def obligations(tier, seed):
    obs = []
    L = 2 if tier == "quick" else 4
    for first in range(7):
        obs.append({"name": "seq/L%d/first_%s" % (L, CMDS[first].strip("<>")), "fn": "ob_seq", "mode": "S",
                    "params": {"L": L, "first": first, "core_only": L == 4}, "timeout": 300 if tier == "quick" else 1500,
                    "bounds": ("%d requests (first = %s) over 7 kinds x 2 names x 3 types, then EOF" % (L, CMDS[first])) if L < 4 else
                              ("4 requests (first = %s of 7 kinds; the others REGISTER / UNREGISTER / MAYBE_UNLINK) x 2 names x "
                               "3 types, then EOF" % CMDS[first])})
    if tier == "thorough":
        for first in range(7):
            obs.append({"name": "seq/L3/first_%s" % CMDS[first].strip("<>"), "fn": "ob_seq", "mode": "S",
                        "params": {"L": 3, "first": first}, "timeout": 600,
                        "bounds": "3 requests (first = %s) then EOF" % CMDS[first]})
    obs.append({"name": "induct", "fn": "ob_induct", "mode": "S", "timeout": 300,
                "bounds": "pre-state refcounts 0..3 for two names (file/folder), one arbitrary request, EOF; warnings raise (-W error) or not"})
    obs.append({"name": "counts", "fn": "ob_counts", "mode": "T", "timeout": 300,
                "bounds": "0..6 registrations then 0..8 maybe_unlink requests of one file/folder (counts symbolic, loop traced)"})
    obs.append({"name": "names", "fn": "ob_names", "mode": "S", "timeout": 300,
                "bounds": "two names of 1..3 segments ('a' or empty) joined by ':', file/folder types, one or two "
                          "registrations, then MAYBE_UNLINK of the second name and EOF"})
    return obs
