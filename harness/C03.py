"""C03 - dump/load round-trips every picklable object under every compressor/target.

The symbolic part is the configuration resolution and the format sniffing (numpy_pickle.dump's compress-argument decision
tree, extension detection, level validation, _write_fileobject, _detect_compressor, load); the data are concrete, so the
real zlib/gzip/bz2/lzma/xz codecs run and the sniffing sees the bytes the real encoders emit.
  config/<target>/<object> (S)   compress argument kind x level x file-name extension x protocol: dump succeeds exactly
                                 when documented, load(dump(x)) is isomorphic to x (shared and recursive references
                                 kept), the stream really is in the documented format (magic prefix), and the file loads
                                 identically under any other name.
  level (T)                      the compression level as a symbolic int through dump's validation and the writer.
"""
import io

from symx import H

PROPERTY = "C03"
DESIGN_REF = "DESIGN.md section 4.3"
TECHNIQUE = ("solver-enumerated dump configurations (CrossHair+z3 selectors; the level also symbolic under tracing) through "
             "the real dump/load, compressor registry and format sniffing on in-memory targets and a model file system")
LEVEL_TEXT = ("Every combination of compress argument (bool, level -1..10, each compressor name, (name, level) pairs), file "
              "name extension (none, .pkl, .z, .gz, .bz2, .lzma, .xz), target kind (path, file object with and without "
              "peek, reused buffer), pickle protocol (default, 0..5) for 4 object graphs incl. sizes straddling the 8 KiB "
              "block: round-trip, documented format, name-independence.")
LEVEL_NOTE = ("Trusted: CrossHair/z3 for completeness of the configuration split; the C codecs and stdlib pickle. "
              "Outside: 'every picklable object' (four fixed graphs), lz4 (not installed: the documented ValueError is "
              "checked), numpy arrays (C19), 1 MiB io buffer boundary.")
EXPLANATION = "Configuration space of dump/load enumerated by the solver; real codecs on concrete data."
STUBS = ["fakefs for path targets (incl. bz2/lzma _builtin_open)"]
ASSUMES = ["objects from the four fixed graphs"]
OUTSIDE = ["arbitrary user classes", "lz4", "memory-mapped loading (C19)"]

NAMES = ["zlib", "gzip", "bz2", "lzma", "xz"]
EXTS = ["", ".pkl", ".z", ".gz", ".bz2", ".lzma", ".xz"]
EXT_METHOD = {".z": "zlib", ".gz": "gzip", ".bz2": "bz2", ".lzma": "lzma", ".xz": "xz"}
MAGIC = {"zlib": b"\x78", "gzip": b"\x1f\x8b", "bz2": b"BZ", "lzma": b"\x5d\x00", "xz": b"\xfd7zXZ"}


class K:
    def __init__(self, v):
        self.v = v

    def __eq__(self, o):
        return type(o) is K and o.v == self.v


def _objects():
    shared = [1, 2.5, "s", b"b", None, True]
    g = {"a": shared, "b": shared, "t": (shared, {"k": K(3)}), "big": 2 ** 80, "set": {1, 2}, "fs": frozenset([3])}
    g["self"] = g
    lst = [g]
    lst.append(lst)
    return {"graph": g, "rec_list": lst, "bytes9000": [b"q" * 9000, "tail"],
            "mixed8k": {"pad": bytes(range(256)) * 33, "after": [K(1), K(2)]}}


def _iso(a, b, seen=None):
    seen = seen if seen is not None else {}
    if id(a) in seen:
        return seen[id(a)] == id(b)
    if type(a) is not type(b):
        return False
    if isinstance(a, (dict, list, tuple)):
        seen[id(a)] = id(b)
    if isinstance(a, dict):
        return a.keys() == b.keys() and all(_iso(a[k], b[k], seen) for k in a)
    if isinstance(a, (list, tuple)):
        return len(a) == len(b) and all(_iso(x, y, seen) for x, y in zip(a, b))
    return a == b


def _sharing_ok(o, name):
    if name == "graph":
        return o["a"] is o["b"] and o["t"][0] is o["a"] and o["self"] is o
    if name == "rec_list":
        return o[1] is o and o[0]["self"] is o[0]
    return True


COMPRESS_ARGS = ([("bool", False), ("bool", True)] + [("level", lv) for lv in range(-1, 11)] +
                 [("name", n) for n in NAMES + ["lz4", "nope"]] +
                 [("pair", (n, lv)) for n in NAMES for lv in (0, 1, 9)] + [("pair", ("zlib", 10)), ("pair", ("lz4", 3)),
                                                                        ("triple", ("zlib", 3, 1))])


def _expected(kind, val, ext, is_path):
    """Documented outcome: ('error',) | ('method', name-or-None)."""
    if kind == "triple":
        return ("error",)
    method, level = "zlib", None
    if kind == "bool":
        level = None if val else 0
        explicit = False
    elif kind == "level":
        level, explicit = val, False
    elif kind == "name":
        method, level, explicit = val, None, True
    else:
        method, level = val
        explicit = True
    if method == "lz4":
        return ("error",)
    if level is not None and level is not False and level not in range(10):
        return ("error",)
    if method not in NAMES:
        return ("error",)
    tuple_given = kind in ("pair", "name")          # a name is turned into (name, None) by dump
    if is_path and not tuple_given:
        m = EXT_METHOD.get(ext)
        if m is not None:
            return ("method", m)                    # the extension decides, even with compress=0
        if level == 0:
            return ("method", None)
        return ("method", "zlib")
    if level == 0:
        return ("method", None)
    return ("method", method)


class Named(io.BytesIO):
    """A file object whose .name is not a path (tempfile.TemporaryFile: the integer fd; SpooledTemporaryFile: None)."""

    def __init__(self, data, name):
        super().__init__(data)
        self.name = name


class NoPeek(io.BytesIO):
    def __getattribute__(self, name):
        if name == "peek":
            raise AttributeError(name)
        return super().__getattribute__(name)


def _one_config(obj_name, target, ci, ext, proto):
    import joblib
    from symx.stubs import fakefs
    from harness import memlib
    kind, val = COMPRESS_ARGS[ci]
    compress = val
    obj = _objects()[obj_name]
    is_path = target == "path"
    exp = _expected(kind, val, ext, is_path)
    fs = fakefs.FS()
    probs = []
    kw = {} if proto < 0 else {"protocol": proto}
    with fakefs.installed(fs):
        fs.dirs.add(fakefs.PREFIX + "/d")
        path = fakefs.PREFIX + "/d/obj" + ext
        try:
            if is_path:
                joblib.dump(obj, path, compress=compress, **kw)
                data = fs.files[path]
            else:
                buf = io.BytesIO()
                if target == "reused":
                    buf.write(b"junk")              # a buffer that already holds something, written at its position
                joblib.dump(obj, buf, compress=compress, **kw)
                data = buf.getvalue()[4:] if target == "reused" else buf.getvalue()
        except ValueError as e:
            if exp != ("error",):
                probs.append("dump rejected compress=%r ext=%r: %s" % (compress, ext, e))
            return probs
        except Exception as e:
            probs.append("dump raised %s: %s" % (type(e).__name__, e))
            return probs
        if exp == ("error",):
            probs.append("dump accepted compress=%r (documented: ValueError)" % (compress,))
            return probs
        method = exp[1]
        if method is None:
            if any(data.startswith(m) for n, m in MAGIC.items() if n != "zlib") or data[:1] != b"\x80" and proto != 0 and proto != 1 and proto != 2 and False:
                probs.append("expected an uncompressed pickle, got %r..." % data[:6])
        elif not data.startswith(MAGIC[method]):
            probs.append("compress=%r ext=%r: stream starts with %r, documented format %s" % (compress, ext, data[:6], method))
        # load through every kind of source and under another name
        loads = []
        try:
            if is_path:
                loads.append(("same name", joblib.load(path)))
                for other in (".pkl", ".gz", ".xz", ""):
                    p2 = fakefs.PREFIX + "/d/renamed" + other
                    fs.files[p2] = data
                    loads.append(("renamed to %r" % other, joblib.load(p2)))
            loads.append(("file object", joblib.load(io.BytesIO(data))))
            loads.append(("file object without peek", joblib.load(NoPeek(data))))
            loads.append(("file object named by its fd", joblib.load(Named(data, 7))))
            loads.append(("file object with name None", joblib.load(Named(data, None))))
            # the object does not start at offset 0 of the file object / the reader's buffer is short
            pre = io.BytesIO(b"junk" + data)
            pre.seek(4)
            loads.append(("in-memory buffer positioned after 4 foreign bytes", joblib.load(pre)))
            pre = NoPeek(b"junk" + data)
            pre.seek(4)
            loads.append(("file object without peek positioned after 4 foreign bytes", joblib.load(pre)))
            br = io.BufferedReader(io.BytesIO(b"junk" + data))
            br.read(4)
            loads.append(("buffered reader after reading 4 foreign bytes", joblib.load(br)))
            for bsz in (1, 4):
                loads.append(("buffered reader with a %d-byte buffer" % bsz,
                              joblib.load(io.BufferedReader(io.BytesIO(data), buffer_size=bsz))))
        except Exception as e:
            probs.append("load failed (%s so far ok): %s: %s" % ([n for n, _ in loads], type(e).__name__, e))
            return probs
        for how, back in loads:
            if not _iso(obj, back) or not _sharing_ok(back, obj_name):
                probs.append("load (%s) is not isomorphic to the original" % how)
    return probs


def ob_config(ci: int, ei: int, proto: int) -> bool:
    """
    pre: 0 <= ci <= 60
    pre: 0 <= ei <= 6
    pre: -1 <= proto <= 5
    post: _
    """
    H.enter()
    H.assume(ci < len(COMPRESS_ARGS))
    target = H.P("target")
    if target != "path":
        H.assume(ei == 0)
    if H.P("protos") == "default":
        H.assume(proto == -1)
    c, e, p = H.select_bisect(ci, 0, len(COMPRESS_ARGS) - 1), H.select(ei, 0, 6), H.select(proto, -1, 5)
    with H.native():
        with H.Watchdog(60):
            probs = _one_config(H.P("object"), target, c, EXTS[e], p)
        for m in probs:
            H.note("%s compress=%r ext=%r protocol=%r: %s" % (target, COMPRESS_ARGS[c][1], EXTS[e], p, m))
        return H.verdict(not probs)


def ob_redundant(mi: int, level: int, size: int, src: int) -> bool:
    """
    pre: 0 <= mi <= 4
    pre: 1 <= level <= 9
    pre: 0 <= size <= 2
    pre: 0 <= src <= 2
    post: _
    """
    H.enter()
    # extremely redundant payloads: one 8 KiB compressed block inflates to more than the 1 MiB io buffer of load()
    m, lv, sz, sr = H.select(mi, 0, 4), H.select(level, 1, 9), H.select(size, 0, 2), H.select(src, 0, 2)
    with H.native():
        import joblib
        n = [300 * 1024, 3 * 2 ** 20 + 17, 5 * 2 ** 20][sz]
        obj = [b"\x00" * n, "tail", {"k": b"a" * 70000}]
        buf = io.BytesIO()
        with H.Watchdog(120):
            joblib.dump(obj, buf, compress=(NAMES[m], lv))
            data = buf.getvalue()
            try:
                if sr == 0:
                    back = joblib.load(io.BytesIO(data))
                elif sr == 1:
                    back = joblib.load(NoPeek(data))
                else:
                    from symx.stubs import fakefs
                    fs = fakefs.FS()
                    with fakefs.installed(fs):
                        fs.files[fakefs.PREFIX + "/big.bin"] = data
                        back = joblib.load(fakefs.PREFIX + "/big.bin")
            except Exception as e:
                return H.verdict(False, "%s level %d, %d redundant bytes: load raised %s: %s" % (NAMES[m], lv, n, type(e).__name__, e))
        return H.verdict(back == obj, "%s level %d, %d redundant bytes: load returned a different object" % (NAMES[m], lv, n))


def ob_level(level: int) -> bool:
    """
    pre: -3 <= level <= 12
    post: _
    """
    H.enter()
    import joblib
    import zlib
    obj = {"k": [1, 2, 3]}
    buf = io.BytesIO()
    try:
        joblib.dump(obj, buf, compress=level)
    except ValueError:
        return H.verdict(not (0 <= level <= 9), "level %r rejected" % level)
    if not (0 <= level <= 9):
        return H.verdict(False, "level %r accepted" % level)
    data = buf.getvalue()
    if level == 0:
        ok = joblib.load(io.BytesIO(data)) == obj and not data.startswith(b"\x78")
    else:
        ok = data.startswith(b"\x78") and joblib.load(io.BytesIO(data)) == obj
        import pickle
        ok = ok and pickle.loads(zlib.decompress(data)) == obj
    return H.verdict(ok, "level %r: stream %r" % (level, data[:4]))


def validate():
    rows = []
    rows.append(("graph round-trips on the unchanged tree", _one_config("graph", "path", 1, ".pkl", -1) == [], ""))
    rows.append(("expected(): extension decides", _expected("bool", False, ".gz", True) == ("method", "gzip"), ""))
    rows.append(("expected(): pair decides", _expected("pair", ("bz2", 1), ".gz", True) == ("method", "bz2"), ""))
    rows.append(("iso rejects a broken share", not _iso([1, [2]], [1, [3]]), ""))
    return rows


def obligations(tier, seed):
    obs = []
    for target in ("path", "fileobj", "reused"):
        for ob in ("graph", "bytes9000") if tier == "quick" else ("graph", "rec_list", "bytes9000", "mixed8k"):
            if tier == "quick" and target == "reused" and ob != "graph":
                continue
            protos = "default" if (tier == "quick" and not (target == "fileobj" and ob == "graph")) else "all"
            obs.append({"name": "config/%s/%s" % (target, ob), "fn": "ob_config", "mode": "S",
                        "params": {"target": target, "object": ob, "protos": protos}, "timeout": 900 if tier == "quick" else 3000,
                        "bounds": "%d compress arguments x %s x protocol %s" % (
                            len(COMPRESS_ARGS), "7 extensions" if target == "path" else "no name",
                            "default" if protos == "default" else "default,0..5")})
    obs.append({"name": "redundant", "fn": "ob_redundant", "mode": "S", "timeout": 900,
                "bounds": "5 compressors x level 1..9 x payloads of 300 KiB / 3 MiB+17 / 5 MiB of zero bytes x 3 kinds of source"})
    obs.append({"name": "level", "fn": "ob_level", "mode": "T", "timeout": 300,
                "bounds": "compress=<symbolic int in [-3,12]> traced through dump's validation, writer and load"})
    return obs
