"""C11 - concurrent users of one cache directory always get correct values.

Interleavings of processes are not executed.  Compositional (rely/guarantee) argument, both halves solver-decided on the
model file system:
  rely/<workload>/<action> (S)   participant A (cold call, warm call, call_and_shelve, reduce_size, clear, second
                                 function) runs with an interference action of the environment injected before a
                                 symbolic one of its file-system primitives (reads included: the window between "entry
                                 exists" and "entry loaded" is one of them); thorough: two actions at two positions.
                                 Actions R: delete a file of an entry, delete an entry, wipe the function directory,
                                 clear the whole cache, another process storing the same entry completely (atomic
                                 rename-in of output.pkl / metadata.json), a partly stored entry (directory only, or
                                 result without metadata), func_code.py rewritten in place and caught at any prefix.
                                 Oracle for A: correct value, no exception.
  guarantee/<workload> (S)       every mutation A itself issues is in R: final names appear only by rename of a closed,
                                 complete temporary (whose name carries thread id and pid); in-place writes only to
                                 func_code.py and .gitignore; deletions only of cache files / directories.
R >= guarantee  =>  any number of participants and any interleaving at file-system-call granularity with at most J
interferences per window.
"""
from symx import H
from symx.stubs import fakefs
from harness import memlib

PROPERTY = "C11"
DESIGN_REF = "DESIGN.md section 4.11"
TECHNIQUE = ("rely/guarantee decomposition; both halves by solver-enumerated (CrossHair+z3 selectors) interference "
             "position x action over the real Memory/store code on a model file system with an event hook before "
             "every primitive")
LEVEL_TEXT = ("Every file-system primitive of 7 participant workloads x 14 interference actions (quick: one per run, "
              "thorough: two): the participant returns the right value and raises nothing; every mutation the participant "
              "issues itself belongs to the interference relation, which closes the argument for any number of processes.")
LEVEL_NOTE = ("Trusted: CrossHair/z3 for completeness; the file-system model (POSIX rename atomicity, non-atomic rmtree); the "
              "interference relation R as the abstraction of 'another joblib process'. Outside: more than J interferences "
              "between two consecutive primitives of one participant, two threads with the same id(thread) and pid, shelved "
              "references read after eviction (documented KeyError), non-POSIX file systems.")
EXPLANATION = "Participant workloads under injected interference on a model file system; own mutations checked against R."
STUBS = ["fakefs with event hook", "fake clock", "warnings/traceback/pydoc cuts"]
ASSUMES = ["POSIX rename is atomic", "other participants are joblib processes (their effects are in R)"]
OUTSIDE = ["more than 2 interference actions per run", "non-joblib writers in the cache directory"]

SRC = "def f(a, b=2):\n    # caf\u00e9\n    return ('val', a, b)\n\ndef h(a):\n    return ('h', a)\n"
WORKLOADS = ["cold", "warm", "shelve", "reduce", "clear", "other_func", "code_change", "twice", "mmap", "reduce_age"]
ACTIONS = ["rm_output", "rm_meta", "rm_code", "rm_entry", "wipe_func", "clear_all", "store_same", "dir_only",
           "output_only", "torn_code_13", "torn_code_half", "empty_code", "same_mkdir", "torn_code_mb", "thread_clear"]

_PLAN = {}
_CUR = {"fs": None}


def _emit(kind):
    fs = _CUR["fs"]
    if fs is not None and fs.hook is not None:
        fs.hook(fs, kind, ("_FUNCTION_HASHES",))


import weakref       # noqa: E402


class _Table(weakref.WeakKeyDictionary):
    """joblib.memory._FUNCTION_HASHES with an interference point before every read: another *thread of the same
    process* shares this table (and Memory.clear() empties it)."""

    def __contains__(self, k):
        _emit("mem:contains")
        return weakref.WeakKeyDictionary.__contains__(self, k)

    def __getitem__(self, k):
        _emit("mem:getitem")
        return weakref.WeakKeyDictionary.__getitem__(self, k)

    def get(self, k, default=None):
        _emit("mem:get")
        return weakref.WeakKeyDictionary.get(self, k, default)


import contextlib    # noqa: E402


@contextlib.contextmanager
def _shared_tables(fs):
    import joblib.memory as jm
    saved = jm._FUNCTION_HASHES
    jm._FUNCTION_HASHES = _Table()
    _CUR["fs"] = fs
    try:
        yield
    finally:
        jm._FUNCTION_HASHES = saved
        _CUR["fs"] = None


def _pre_state(name):
    fs = fakefs.FS()
    clock = memlib.Clock()
    with memlib.env(fs, clock):
        memlib.fresh_process()
        ns = memlib.define(fs, "c11mod", SRC)
        mem = memlib.new_memory()
        if name in ("warm", "reduce", "clear", "other_func", "shelve", "code_change", "reduce_age"):
            g = mem.cache(ns["f"])
            g(1)
            g(2)
            if name in ("reduce", "clear", "reduce_age"):
                g(3)
    return fs


def _participant(name, fs, clock):
    """Runs participant A on fs; returns list of problems."""
    probs = []
    memlib.fresh_process()
    src = SRC if name != "code_change" else SRC.replace("'val'", "'val2'")
    ns = memlib.define(fs, "c11mod", src)
    mem = memlib.new_memory(mmap_mode="r") if name == "mmap" else memlib.new_memory()
    tag = "val2" if name == "code_change" else "val"
    if name in ("cold", "warm", "code_change", "mmap"):      # mmap: the fresh result is read back right after the store
        v = mem.cache(ns["f"])(1)
        if v != (tag, 1, 2):
            probs.append("call returned %r" % (v,))
    elif name == "twice":
        g = mem.cache(ns["f"])
        for _ in range(2):                  # the second call goes through the in-memory shortcut
            v = g(1)
            if v != (tag, 1, 2):
                probs.append("call returned %r" % (v,))
    elif name == "shelve":
        ref = mem.cache(ns["f"]).call_and_shelve(1)
        try:
            v = ref.get()
        except (KeyError, FileNotFoundError):
            v = None          # documented: a shelved reference whose entry was evicted/cleared meanwhile cannot be read
        if v is not None and v != (tag, 1, 2):
            probs.append("call_and_shelve().get() returned %r" % (v,))
    elif name == "reduce":
        mem.reduce_size(items_limit=1)
    elif name == "reduce_age":
        import datetime
        mem.reduce_size(age_limit=datetime.timedelta(days=1))
    elif name == "clear":
        mem.clear(warn=False)
    elif name == "other_func":
        v = mem.cache(ns["h"])(5)
        if v != ("h", 5):
            probs.append("call returned %r" % (v,))
    return probs


def prepare(params):
    wl = params.get("workload")
    if wl is None:
        return
    fs = _pre_state(wl)
    snap = fs.snapshot()
    clock = memlib.Clock(start=2000.0)
    events = []
    fs.hook = lambda f, kind, args: events.append((kind,) + tuple(args[:1]))
    start_trace = len(fs.trace)
    with memlib.env(fs, clock), _shared_tables(fs):
        _participant(wl, fs, clock)
    fs.hook = None
    # complete files another process would rename in (the value the same function computes)
    donor = fakefs.FS()
    with memlib.env(donor, memlib.Clock()):
        memlib.fresh_process()
        ns = memlib.define(donor, "c11mod", SRC)
        memlib.new_memory().cache(ns["f"])(1)
    entry = [d for d in donor.dirs if len(d.rsplit("/", 1)[-1]) == 32][0]
    code_path = [p for p in donor.files if p.endswith("/f/func_code.py")][0]
    _PLAN.update(snap=snap, n_events=len(events), events=events, trace=list(fs.trace[start_trace:]),
                 protocol=list(fs.renamed_from_open), donor_entry=entry,
                 donor_files={p: donor.files[p] for p in donor.files if p.startswith(entry)},
                 code_path=code_path, code=donor.files[code_path])


def _interfere(fs, action, event=None):
    """One step of 'another joblib process' on the shared directory (no events, no hook)."""
    if action == "thread_clear":
        # Memory.clear() by another thread of the same process: the directory and the shared in-memory tables
        import joblib.memory as jm
        _interfere(fs, "clear_all", event)
        weakref.WeakKeyDictionary.clear(jm._FUNCTION_HASHES)
        jm._FUNCTION_ID_HASHES.clear()
        return
    if action == "same_mkdir":
        # another process creates the very directory the participant is about to create (or test for)
        if event is not None and event[0] in ("mkdir", "stat") and event[1].startswith(memlib.CACHE + "/joblib/") \
                and "." not in event[1].rsplit("/", 1)[1]:
            parts = event[1].split("/")
            for i in range(2, len(parts) + 1):
                fs.dirs.add("/".join(parts[:i]))
        return
    entry = _PLAN["donor_entry"]
    func_dir = entry.rsplit("/", 1)[0]
    cache_root = memlib.CACHE + "/joblib"
    code = _PLAN["code_path"]

    def rmtree(d):
        for p in [p for p in list(fs.files) if p.startswith(d + "/")]:
            del fs.files[p]
        for q in sorted([q for q in fs.dirs if q == d or q.startswith(d + "/")], reverse=True):
            fs.dirs.discard(q)

    def mkdirs(d):
        parts = d.split("/")
        for i in range(2, len(parts) + 1):
            fs.dirs.add("/".join(parts[:i]))

    if action == "rm_output":
        fs.files.pop(entry + "/output.pkl", None)
    elif action == "rm_meta":
        fs.files.pop(entry + "/metadata.json", None)
    elif action == "rm_code":
        fs.files.pop(code, None)
    elif action == "rm_entry":
        rmtree(entry)
    elif action == "wipe_func":
        rmtree(func_dir)
    elif action == "clear_all":
        for d in [d for d in list(fs.dirs) if d.startswith(cache_root + "/")]:
            if d in fs.dirs:
                rmtree(d)
    elif action == "store_same":
        mkdirs(entry)
        for p, data in _PLAN["donor_files"].items():
            fs.files[p] = data
        if code not in fs.files:
            fs.files[code] = _PLAN["code"]
    elif action == "dir_only":
        mkdirs(entry)
    elif action == "output_only":
        mkdirs(entry)
        fs.files[entry + "/output.pkl"] = _PLAN["donor_files"][entry + "/output.pkl"]
        fs.files.pop(entry + "/metadata.json", None)
    elif action.startswith("torn_code") or action == "empty_code":
        if func_dir in fs.dirs:
            full = _PLAN["code"]
            k = {"torn_code_13": 13, "torn_code_half": len(full) // 2, "empty_code": 0,
                 "torn_code_mb": full.find(b"\xc3") + 1}[action]      # in the middle of a 2-byte character
            fs.files[code] = full[:k]


def _run_with_interference(wl, plan):
    """plan: list of (event index, action)."""
    fs = fakefs.FS()
    fs.restore(_PLAN["snap"])
    clock = memlib.Clock(start=2000.0)
    count = [0]
    todo = sorted(plan)

    def hook(f, kind, args):
        i = count[0]
        count[0] += 1
        while todo and todo[0][0] == i:
            _interfere(f, todo.pop(0)[1], (kind,) + tuple(args[:1]))
    fs.hook = hook
    with memlib.env(fs, clock), _shared_tables(fs):
        try:
            with H.Watchdog(90):
                probs = _participant(wl, fs, clock)
        except Exception as e:
            import traceback
            probs = ["raised %s: %s [%s]" % (type(e).__name__, e, traceback.format_exc(limit=-3).replace("\n", " / ")[-300:])]
    return probs


def ob_rely(e: int, act: int, e2: int, act2: int) -> bool:
    """
    pre: 0 <= e <= 400 and -1 <= e2 <= 400
    pre: 0 <= act <= 14 and 0 <= act2 <= 14
    post: _
    """
    H.enter()
    n = _PLAN["n_events"]
    J = H.P("J", 1)
    H.assume(e < n and e2 < n)
    if J < 2:
        H.assume(e2 == -1 and act2 == 0)
    else:
        H.assume(e2 == -1 and act2 == 0 or e2 >= e)
    H.assume(act == H.P("action"))
    if H.P("same2", 0):
        H.assume(e2 == -1 or act2 == act)         # the second interference repeats the first action
    ee = H.select_bisect(e, 0, n - 1)
    e2v = H.select_bisect(e2, -1, n - 1)
    a2 = H.select(act2, 0, 14)
    with H.native():
        plan = [(ee, ACTIONS[H.P("action")])] + ([(e2v, ACTIONS[a2])] if e2v >= 0 else [])
        probs = _run_with_interference(H.P("workload"), plan)
        for m in probs:
            ev = _PLAN["events"][ee] if ee < len(_PLAN["events"]) else None
            H.note("%s with %r (before its primitive #%d %r): %s" % (H.P("workload"), plan, ee, ev, m))
        return H.verdict(not probs)


def ob_guarantee(i: int) -> bool:
    """
    pre: 0 <= i <= 400
    post: _
    """
    H.enter()
    tr = _PLAN["trace"]
    H.assume(i < len(tr))
    k = H.select_bisect(i, 0, len(tr) - 1)
    with H.native():
        import os
        op = tr[k]
        bad = []
        root = memlib.CACHE
        path = op[1]
        base = path.rsplit("/", 1)[1]
        if not (path == root or path.startswith(root + "/")) and not path.startswith(memlib.SRC_DIR):
            bad.append("mutation outside the cache directory: %r" % (op[:2],))
        if op[0] in ("create", "write"):
            temp_ok = (".thread-" in base and "-pid-%d" % os.getpid() in base)
            if not (base in ("func_code.py", ".gitignore") or temp_ok):
                bad.append("in-place %s of %s" % (op[0], path))
        if op[0] == "rename":
            src, dst = op[1], op[2]
            sb = src.rsplit("/", 1)[1]
            if not (sb.startswith(dst.rsplit("/", 1)[1] + ".thread-") and src.rsplit("/", 1)[0] == dst.rsplit("/", 1)[0]):
                bad.append("rename %s -> %s is not temp -> final in one directory" % (src, dst))
            # the temporary was closed before the rename
            closed = any(o[0] == "close" and o[1] == src for o in tr[:k])
            if not closed:
                bad.append("rename of %s before it was closed" % src)
        if _PLAN["protocol"]:
            bad.append("rename of a file still open for writing: %r" % (_PLAN["protocol"],))
        for m in bad:
            H.note(m)
        return H.verdict(not bad)


def validate():
    rows = fakefs.selfcheck()
    prepare({"workload": "cold"})
    rows.append(("cold workload has events and a trace", _PLAN["n_events"] > 20 and len(_PLAN["trace"]) > 10, str(_PLAN["n_events"])))
    rows.append(("no interference: participant is clean", _run_with_interference("cold", []) == [], ""))
    # the interference really bites: removing output.pkl before the warm call's load forces a recompute, not an error
    prepare({"workload": "warm"})
    rows.append(("warm participant survives rm_output at event 0", _run_with_interference("warm", [(0, "rm_output")]) == [], ""))
    return rows


def obligations(tier, seed):
    obs = []
    J = 1 if tier == "quick" else 2
    for wl in WORKLOADS:
        for ai, act in enumerate(ACTIONS):
            if tier == "quick" and wl in ("reduce", "clear", "other_func", "reduce_age") and act in ("torn_code_half", "empty_code", "dir_only", "rm_code"):
                continue
            obs.append({"name": "rely/%s/%s" % (wl, act), "fn": "ob_rely", "mode": "S",
                        "params": {"workload": wl, "action": ai, "J": J}, "timeout": 600 if tier == "quick" else 3000,
                        "bounds": "interference '%s' before any file-system primitive of the participant%s" % (
                            act, "" if J == 1 else ", plus any second action at any later primitive")})
        if tier == "quick" and wl in ("cold", "code_change"):
            obs.append({"name": "rely2/%s/clear_all" % wl, "fn": "ob_rely", "mode": "S",
                        "params": {"workload": wl, "action": ACTIONS.index("clear_all"), "J": 2, "same2": 1}, "timeout": 600,
                        "bounds": "the whole cache is cleared before any two file-system primitives of the participant"})
        obs.append({"name": "guarantee/%s" % wl, "fn": "ob_guarantee", "mode": "S", "params": {"workload": wl},
                    "timeout": 300, "bounds": "every mutation the participant issues"})
    return obs
