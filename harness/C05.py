"""C05 - killing the process at any instant never corrupts the Memory cache.

For each workload the real code runs once on the in-memory file system, which records the mutation trace
(mkdir / create / write(data) / close / rename / unlink / rmdir).  A crash state is a prefix of that trace applied
to the pre-state, the last write possibly torn.  Recovery = fresh in-memory tables, new Memory, same call.

  crash/<workload>/<recovery> (S)   symbolic crash index p and torn length k (solver-driven exhaustive split),
                                    recovery runs natively.
  torn_code (T)                     crash while func_code.py is written: the torn length stays symbolic and flows
                                    through extract_first_line / _check_previous_func_code under tracing.
  final_names (S)                   on every crash prefix, every output.pkl / metadata.json visible under its
                                    final name is complete (loads to the full value); final names only ever appear
                                    by rename of a closed temporary.
"""
from symx import H
from symx.stubs import fakefs
from harness import memlib

PROPERTY = "C05"
DESIGN_REF = "DESIGN.md section 4.5"
TECHNIQUE = ("bounded symbolic execution (CrossHair+z3): symbolic crash index / torn-write length over the mutation "
             "trace recorded from the real store code on a model file system; recovery through the real Memory API")
LEVEL_TEXT = ("Every prefix of the recorded mutation sequence of 8 workloads (cold, warm, source change, callback "
              "invalidation, call_and_shelve, compressed, reduce_size, clear), every torn length of every in-place "
              "write, crossed with 3 recovery styles (plain, expires_after, call_and_shelve.get): recovery returns the "
              "right value and never raises; result files are never visible incomplete.")
LEVEL_NOTE = ("Trusted: CrossHair/z3, the file-system model (validated against a real directory every run: non-atomic "
              "rmtree, atomic rename, in-place writes). Crash = prefix of the mutation trace at FS-primitive granularity "
              "plus torn last write. Outside: fsync/power-loss reordering, torn renames, NFS, payloads beyond the small "
              "ones used.")
EXPLANATION = "Crash points and torn writes as symbolic variables over the recorded trace of the real store code."
STUBS = ["fakefs (os.*/open/shutil.rmtree on /vfs)", "fake clock in joblib.memory/_store_backends", "warnings/traceback/pydoc formatting cut"]
ASSUMES = ["a kill leaves exactly a prefix of the issued FS mutations, the last write possibly partial",
           "rename is atomic (POSIX)"]
OUTSIDE = ["power loss without fsync", "non-POSIX rename", "large payloads (multi-chunk pickles beyond those recorded)"]

SRC_V1 = "LOG = []\ndef f(a, b=2):\n    # caf\u00e9 \u2713\n    LOG.append(a)\n    return ('v1', a, b)\n"      # non-ASCII: multi-byte characters can be torn
SRC_BIG = "LOG = []\ndef f(a, b=2):\n    LOG.append(a)\n    return ('v1', a, b, list(range(3000)), 'x' * 70000)\n"
SRC_V2 = "LOG = []\ndef f(a, b=2):\n    x = 1\n    LOG.append(a)\n    return ('v2', a, b)\n"
WORKLOADS = ["cold", "warm", "source_change", "invalidate", "shelve", "compressed", "reduce_size", "clear"]
RECOVERIES = ["plain", "expires", "shelve_get", "never_valid"]

_PLAN = {}


def _session(fs, clock, src=SRC_V1, **memkw):
    """A 'process': fresh tables, function defined from source, Memory on the shared directory."""
    memlib.fresh_process()
    ns = memlib.define(fs, "c05mod", src)
    mem = memlib.new_memory(**memkw)
    return mem, ns["f"]


def _never_valid(metadata):
    return False


def _prestate_and_work(name):
    """Returns (pre(fs, clock), work(fs, clock), expected tag, memkw for recovery)."""
    def none(fs, clock):
        pass

    def one_entry(fs, clock):
        mem, f = _session(fs, clock)
        mem.cache(f)(1)

    def three_entries(fs, clock):
        mem, f = _session(fs, clock)
        g = mem.cache(f)
        g(1)
        g(2)
        g(3)

    def cold(fs, clock):
        mem, f = _session(fs, clock)
        mem.cache(f)(1)

    def source_change(fs, clock):
        mem, f = _session(fs, clock, SRC_V2)
        mem.cache(f)(1)

    def invalidate(fs, clock):
        mem, f = _session(fs, clock)
        mem.cache(f, cache_validation_callback=_never_valid)(1)

    def cold_big(fs, clock):
        mem, f = _session(fs, clock, SRC_BIG)
        mem.cache(f)(1)

    def shelve(fs, clock):
        mem, f = _session(fs, clock)
        mem.cache(f).call_and_shelve(1).get()

    def compressed(fs, clock):
        mem, f = _session(fs, clock, compress=True)
        mem.cache(f)(1)

    def reduce_size(fs, clock):
        mem, f = _session(fs, clock)
        mem.reduce_size(items_limit=1)

    def clear(fs, clock):
        mem, f = _session(fs, clock)
        mem.clear(warn=False)

    table = {"cold_big": (none, cold_big, SRC_BIG, {}), "cold_big_z": (none, lambda fs, clock: _session(fs, clock, SRC_BIG, compress=True)[0].cache(_session(fs, clock, SRC_BIG, compress=True)[1])(1), SRC_BIG, {"compress": True}),
             "cold": (none, cold, SRC_V1, {}), "warm": (one_entry, cold, SRC_V1, {}),
             "source_change": (three_entries, source_change, SRC_V2, {}), "invalidate": (one_entry, invalidate, SRC_V1, {}),
             "shelve": (none, shelve, SRC_V1, {}), "compressed": (none, compressed, SRC_V1, {"compress": True}),
             "reduce_size": (three_entries, reduce_size, SRC_V1, {}), "clear": (three_entries, clear, SRC_V1, {})}
    return table[name]


def prepare(params):
    """Record the workload's mutation trace from the *current* source (native, concrete)."""
    wl = params.get("workload")
    if wl is None:
        return
    pre, work, src, memkw = _prestate_and_work(wl)
    fs = fakefs.FS()
    fs.reverse_listing = bool(params.get("reverse_listing"))
    clock = memlib.Clock()
    with memlib.env(fs, clock):
        pre(fs, clock)
        snap = fs.snapshot()
        start = len(fs.trace)
        work(fs, clock)
        trace = list(fs.trace[start:])
        protocol = list(fs.renamed_from_open)
    _PLAN.update(snap=snap, trace=trace, src=src, memkw=memkw, protocol=protocol, clock=clock.now)


def _crash_state(p, k):
    fs = fakefs.FS()
    fs.restore(_PLAN["snap"])
    tr = _PLAN["trace"]
    for i in range(p):
        op = tr[i]
        fs.apply(op, torn=k if (i == p - 1 and op[0] == "write") else None)
    return fs


_EXP = {}


def _expected(src, a):
    if src not in _EXP:
        ns = {}
        exec(src, ns)
        _EXP[src] = ns["f"]
    r = _EXP[src](a)
    del _EXP[src].__globals__["LOG"][:]
    return r


def _recover(fs, recovery, args=(1, 2, 3)):
    """A fresh process uses the cache.  Returns a list of problems."""
    from joblib.memory import expires_after
    problems = []
    clock = memlib.Clock(start=_PLAN["clock"] + 10.0)
    src = _PLAN["src"]
    with memlib.env(fs, clock):
        try:
            mem, f = _session(fs, clock, src, **_PLAN["memkw"])
            if recovery == "expires":
                g = mem.cache(f, cache_validation_callback=expires_after(seconds=3600))
            elif recovery == "never_valid":
                g = mem.cache(f, cache_validation_callback=_never_valid)
            else:
                g = mem.cache(f)
            for a in args:
                log = f.__globals__["LOG"]
                del log[:]
                if recovery == "shelve_get":
                    v = g.call_and_shelve(a).get()
                else:
                    v = g(a)
                if recovery == "never_valid" and len(log) != 1:
                    # the callback rejects every entry: whatever the crash left behind must not be served
                    problems.append("f(%r): the validation callback says 'invalid' but the body ran %d times" % (a, len(log)))
                if v != _expected(src, a):
                    problems.append("f(%r) returned %r after the crash" % (a, v))
                # and once more: whatever the first call repaired must now be served
                v2 = g(a)
                if v2 != _expected(src, a):
                    problems.append("second f(%r) returned %r" % (a, v2))
        except Exception as e:
            problems.append("recovery raised %s: %s" % (type(e).__name__, e))
    return problems


def ob_crash(p: int, k: int) -> bool:
    """
    pre: 0 <= p <= 400
    pre: 0 <= k <= 200000
    post: _
    """
    H.enter()
    tr = _PLAN["trace"]
    H.assume(p <= len(tr))
    pp = H.select(p, 0, len(tr))
    kk = 0
    if pp > 0 and tr[pp - 1][0] == "write":
        n = len(tr[pp - 1][2])
        H.assume(k <= n)
        if n > 300:
            # long writes: every length below 64, every 997th, and the last 64
            H.assume(k < 64 or k > n - 64 or k % 997 == 0)
        kk = H.select_bisect(k, 0, n)
    else:
        H.assume(k == 0)
    recovery = H.P("recovery")
    with H.native():
        fs = _crash_state(pp, kk)
        problems = _recover(fs, recovery)
        for m in problems:
            H.note("crash after %d/%d mutations (last: %r, torn at %d): %s" % (
                pp, len(tr), tr[pp - 1][:2] if pp else None, kk, m))
        return H.verdict(not problems)


def ob_final_names(p: int) -> bool:
    """
    pre: 0 <= p <= 400
    post: _
    """
    H.enter()
    tr = _PLAN["trace"]
    H.assume(p <= len(tr))
    pp = H.select(p, 0, len(tr))
    with H.native():
        import joblib
        import json
        fs = _crash_state(pp, None)
        bad = []
        if _PLAN["protocol"]:
            bad.append("rename of a file still open for writing: %r" % (_PLAN["protocol"],))
        with memlib.env(fs):
            for path in sorted(fs.files):
                base = path.rsplit("/", 1)[1]
                if base == "output.pkl":
                    try:
                        v = joblib.load(path)
                        if not (isinstance(v, tuple) and len(v) in (3, 5) and v[0] in ("v1", "v2")):
                            bad.append("%s holds %r" % (path, v))
                    except Exception as e:
                        bad.append("%s visible but incomplete (%s)" % (path, type(e).__name__))
                elif base == "metadata.json":
                    try:
                        json.loads(fs.files[path].decode("utf-8"))["time"]
                    except Exception as e:
                        bad.append("%s visible but incomplete (%s)" % (path, type(e).__name__))
        # trace-level: a final name is only ever produced by a rename, never written in place
        for op in tr[:pp]:
            if op[0] in ("create", "write") and op[1].rsplit("/", 1)[1] in ("output.pkl", "metadata.json"):
                bad.append("in-place %s of %s" % (op[0], op[1]))
        for m in bad:
            H.note("after %d mutations: %s" % (pp, m))
        return H.verdict(not bad)


def ob_torn_code(k: int) -> bool:
    """
    pre: 0 <= k <= 200
    post: _
    """
    H.enter()
    # crash while func_code.py is being written in place: the file holds an arbitrary prefix
    tr = _PLAN["trace"]
    idx = [i for i, op in enumerate(tr) if op[0] == "write" and op[1].endswith("func_code.py")]
    data = tr[idx[0]][2]
    H.assume(k <= len(data))
    fs = _crash_state(idx[0], None)
    path = tr[idx[0]][1]
    fs.files[path] = data[:k]            # symbolic slice: the torn content
    problems = _recover(fs, H.P("recovery"), args=(1,))
    return H.verdict(not problems, "func_code.py torn: %r" % (problems,))


def validate():
    rows = fakefs.selfcheck()
    prepare({"workload": "cold"})
    kinds = [op[0] for op in _PLAN["trace"]]
    rows.append(("cold workload trace has rename of output.pkl",
                 any(op[0] == "rename" and op[2].endswith("output.pkl") for op in _PLAN["trace"]), str(kinds)))
    rows.append(("recovery on the complete state is clean", _recover(_crash_state(len(_PLAN["trace"]), None), "plain") == [], ""))
    return rows


def obligations(tier, seed):
    obs = []
    for wl in WORKLOADS:
        for rec in RECOVERIES:
            if tier == "quick" and rec == "shelve_get" and wl in ("warm", "compressed", "clear"):
                continue
            if rec == "never_valid" and wl not in ("cold", "invalidate", "reduce_size", "source_change"):
                continue
            obs.append({"name": "crash/%s/%s" % (wl, rec), "fn": "ob_crash", "mode": "S",
                        "params": {"workload": wl, "recovery": rec}, "timeout": 400,
                        "bounds": "every prefix of the workload's mutation trace x every torn length of the last write"})
        if wl in ("source_change", "invalidate", "reduce_size", "clear"):
            # removals: the order in which rmtree meets the files of an entry is the file system's choice
            for rec in ("plain", "shelve_get"):
                obs.append({"name": "crash/%s@revlist/%s" % (wl, rec), "fn": "ob_crash", "mode": "S",
                            "params": {"workload": wl, "recovery": rec, "reverse_listing": True}, "timeout": 400,
                            "bounds": "as crash/%s, directory listings in reverse order" % wl})
        obs.append({"name": "final_names/%s" % wl, "fn": "ob_final_names", "mode": "S", "params": {"workload": wl},
                    "timeout": 200, "bounds": "every prefix of the workload's mutation trace"})
    if tier == "thorough":
        for wl in ("cold_big", "cold_big_z"):
            for rec in ("plain", "shelve_get"):
                obs.append({"name": "crash/%s/%s" % (wl, rec), "fn": "ob_crash", "mode": "S",
                            "params": {"workload": wl, "recovery": rec}, "timeout": 1800,
                            "bounds": "70 KB result (multi-chunk pickle writes): every prefix of the trace; torn lengths < 64, "
                                      "> len-64 and every 997th in between"})
    for rec in ("plain", "expires"):
        obs.append({"name": "torn_code/%s" % rec, "fn": "ob_torn_code", "mode": "T",
                    "params": {"workload": "cold", "recovery": rec}, "timeout": 600,
                    "bounds": "func_code.py holds data[:k], k symbolic over the whole write; recovery traced"})
    return obs
