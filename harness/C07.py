"""C07 - filter_args binds parameters exactly as Python does (differential vs inspect.Signature.bind).

Programs: every valid signature with <= n parameters over 5 kinds x default/no default, generated as real
`def`s from text (so the real inspect.signature is what filter_args sees), plain functions and bound methods.
Symbolic per signature: the positional argument list (symbolic length <= 7, symbolic int values), which
named parameters are passed by keyword and with which (symbolic) values, an extra unknown keyword.
Oracle: inspect.signature(f).bind(...).apply_defaults() (pure Python, traced as well).
"""
import inspect
import itertools
from typing import List

from symx import H

PROPERTY = "C07"
DESIGN_REF = "DESIGN.md section 4.7"
TECHNIQUE = ("bounded symbolic execution (CrossHair+z3) of filter_args on generated signatures with a symbolic "
             "positional list / keyword mask / values, differential against inspect.Signature.bind")
LEVEL_TEXT = ("For every enumerated signature (quick: all with <=3 parameters + a boundary family of 4-5; thorough: "
              "all 1085 with <=5) the whole call-shape space (0..7 positionals, any subset of names by keyword, an "
              "extra keyword, arbitrary integer values) is explored symbolically through the real filter_args and "
              "compared with Python's own binding; ignore-list removal is checked on every path.")
LEVEL_NOTE = ("Trusted: CrossHair/z3, inspect.Signature.bind as the definition of 'what Python binds'. Values are ints "
              "(filter_args only moves values). Outside: signatures with >5 parameters, C-level callables, calls "
              "Python itself rejects.")
EXPLANATION = "Differential harness: filter_args vs inspect.Signature.bind + apply_defaults on symbolic call shapes."
STUBS = ["inspect.signature memoised per function object (real result, computed outside tracing)", "oracle inspect.Signature.bind runs natively on the realised call shape with symbolic values as opaque objects"]
ASSUMES = ["argument values are integers", "at most 7 positional arguments", "calls rejected by Python are out of domain"]
OUTSIDE = ["signatures with more than 5 parameters", "builtin / C callables", "functools.partial (returns {'*','**'} by design)"]

KINDS = ["po", "pk", "va", "ko", "vk"]
_ORDER = {k: i for i, k in enumerate(KINDS)}


def all_sigs(maxn, minn=0):
    out = []
    for n in range(minn, maxn + 1):
        for ks in itertools.product(KINDS, repeat=n):
            if list(ks) != sorted(ks, key=_ORDER.get):
                continue
            if ks.count("va") > 1 or ks.count("vk") > 1:
                continue
            named = [i for i, k in enumerate(ks) if k in ("po", "pk", "ko")]
            for ds in itertools.product([0, 1], repeat=len(named)):
                d = dict(zip(named, ds))
                seen, ok = False, True
                for i, k in enumerate(ks):
                    if k in ("po", "pk"):
                        if d[i]:
                            seen = True
                        elif seen:
                            ok = False
                if ok:
                    out.append([[k, d.get(i, 0)] for i, k in enumerate(ks)])
    return out


def sig_text(spec, method=False):
    parts = ["self"] if method else []
    kinds = [k for k, _ in spec]
    for i, (k, d) in enumerate(spec):
        if k == "va":
            parts.append("*va")
            continue
        if k == "vk":
            parts.append("**vk")
            continue
        if k == "ko" and "va" not in kinds and (i == 0 or spec[i - 1][0] != "ko"):
            parts.append("*")
        parts.append("p%d%s" % (i, "=%d" % (900 + i) if d else ""))
        if k == "po" and (i + 1 == len(spec) or spec[i + 1][0] != "po"):
            parts.append("/")
    return ", ".join(parts)


_CACHE = {}


def build(spec, method):
    key = (sig_text(spec, method), method)
    if key not in _CACHE:
        ns = {"__name__": "verif_c07_sigs"}
        if method:
            src = "class K:\n    def f(%s):\n        pass\nobj = K()\nf = obj.f\n" % sig_text(spec, True)
        else:
            src = "def f(%s):\n    pass\n" % sig_text(spec)
        exec(compile(src, "<c07 %s>" % sig_text(spec, method), "exec"), ns)
        _CACHE[key] = (ns["f"], ns.get("obj"))
    return _CACHE[key]


_SIGS = {}
_real_signature = inspect.signature


def _memo_signature(obj, **kw):
    """inspect.signature memoised per function object (computed outside tracing by the real one):
    the stdlib is not the code under test and its 2000 traced lines dominated the path cost."""
    try:
        hit = _SIGS.get(id(obj))
    except Exception:
        hit = None
    if hit is not None and hit[0] is obj and not kw:
        return hit[1]
    return _real_signature(obj, **kw)


def prepare(params):
    import joblib.func_inspect as fi
    for spec in params.get("sigs", []):
        f, obj = build(spec, params.get("method", False))
        _SIGS[id(f)] = (f, _real_signature(f))
        if obj is not None:
            _SIGS[id(f.__func__)] = (f.__func__, _real_signature(f.__func__))

    class _Inspect:
        def __getattr__(self, name):
            return getattr(inspect, name)
    shim = _Inspect()
    shim.signature = _memo_signature
    fi.inspect = shim


def _check_one(spec, method, args, kmask, kvals, extra, xv):
    from joblib.func_inspect import filter_args
    from crosshair.tracers import NoTracing
    f, obj = build(spec, method)
    sig = _SIGS[id(f)][1] if id(f) in _SIGS else inspect.signature(f)
    named = [i for i, (k, _) in enumerate(spec) if k in ("po", "pk", "ko")]
    kwargs = {}
    for j, i in enumerate(named):
        if kmask[j]:
            kwargs["p%d" % i] = kvals[j]
    if extra:
        # a surplus keyword; for methods it may be spelled like the (already bound) first parameter
        # ... or like the signature's own *va / **vk parameters (it can only land in **vk)
        if xv < -100:
            xname = "va"
        elif xv < 0:
            xname = "self" if method else "vk"
        else:
            xname = "zz"
        kwargs[xname] = xv
    args = tuple([a for a in args])      # realises the *length*; the values stay symbolic
    # The oracle only moves values around: it runs natively on the (now concrete) call shape with the
    # symbolic values as opaque objects.
    with NoTracing():
        try:
            ba = sig.bind(*args, **kwargs)
        except TypeError:
            ba = None
        if ba is not None:
            ba.apply_defaults()
            expected = {}
            if method:
                expected["self"] = obj
            for nm, p in sig.parameters.items():
                if p.kind is p.VAR_POSITIONAL:
                    expected["*"] = list(ba.arguments[nm])
                elif p.kind is p.VAR_KEYWORD:
                    expected["**"] = dict(ba.arguments[nm])
                else:
                    expected[nm] = ba.arguments[nm]
    if ba is None:
        H.assume(False)          # Python rejects the call: outside the property's domain
    if method and "self" in kwargs and not any(k == "po" for k, _ in spec):
        H.assume(False)          # 'self' is positional-or-keyword here: Python itself rejects obj.f(self=...)
    kw_before = dict(kwargs)
    got = filter_args(f, [], args, kwargs)
    if kwargs != kw_before:
        H.note("filter_args mutated the caller's kwargs")
        return False
    if not _same(got, expected):
        H.note("sig (%s) args=%r kwargs=%r: got %r expected %r" % (sig_text(spec, method), args, kw_before, got, expected))
        return False
    # ignore list: removing a name removes exactly that entry
    for key in list(expected):
        g2 = filter_args(f, [key], args, dict(kw_before))
        e2 = {k: v for k, v in expected.items() if k != key}
        if not _same(g2, e2):
            H.note("sig (%s) ignore=[%r]: got %r expected %r" % (sig_text(spec, method), key, g2, e2))
            return False
    g3 = filter_args(f, list(expected), args, dict(kw_before))
    if len(g3) != 0:
        H.note("ignoring every name leaves %r" % (g3,))
        return False
    return True


def _same(got, expected):
    if set(got.keys()) != set(expected.keys()):
        return False
    for k, v in expected.items():
        g = got[k]
        if k == "*":
            if list(g) != list(v):
                return False
        elif k == "**":
            if dict(g) != dict(v):
                return False
        elif k == "self":
            if g is not v:
                return False
        elif not (g == v):
            return False
    return True


def ob_bind(sel: int, args: List[int], k0: bool, k1: bool, k2: bool, k3: bool, k4: bool,
            v0: int, v1: int, v2: int, v3: int, v4: int, extra: bool, xv: int) -> bool:
    """
    pre: 0 <= sel < 64
    pre: len(args) <= 7
    post: _
    """
    H.enter()
    group = H.P("sigs")
    method = H.P("method", False)
    H.assume(sel < len(group))
    spec = None
    for i in range(len(group)):      # explicit case split on the signature selector
        if sel == i:
            spec = group[i]
    n_named = sum(1 for k, _ in spec if k in ("po", "pk", "ko"))
    kmask = [k0, k1, k2, k3, k4]
    for j in range(n_named, 5):      # unused mask bits are pinned so they do not fork
        H.assume(not kmask[j])
    kinds = [k for k, _ in spec]
    n_posn = sum(1 for k in kinds if k in ("po", "pk"))
    # prunings implied by Python's own rejection (too many positionals / unknown keyword)
    H.assume(len(args) <= n_posn + (2 if "va" in kinds else 0))
    if "vk" not in kinds:
        H.assume(not extra)
    ok = _check_one(spec, method, args, kmask, [v0, v1, v2, v3, v4], extra, xv)
    return H.verdict(ok)


class _AlwaysEqual:
    """Compares equal to everything (unittest.mock.ANY)."""

    def __eq__(self, other):
        return True

    def __ne__(self, other):
        return False

    __hash__ = object.__hash__


class _ElementWise:
    """Comparisons give an element-wise result without a truth value (numpy arrays, pandas objects)."""

    def __eq__(self, other):
        return _NoTruth()

    def __ne__(self, other):
        return _NoTruth()

    __hash__ = object.__hash__


class _NoTruth:
    def __bool__(self):
        raise ValueError("The truth value of an element-wise comparison is ambiguous")


_ODD = [_AlwaysEqual(), _ElementWise()]


def _odd_funcs(d):
    def f0(a, b=d):
        pass

    def f1(a, /, b=d):
        pass

    def f2(a, *, b=d):
        pass

    def f3(a, b=d, *va, c=d, **vk):
        pass
    return [f0, f1, f2, f3]


def ob_odd_defaults(di: int, fi: int, shape: int) -> bool:
    """
    pre: 0 <= di <= 1
    pre: 0 <= fi <= 3
    pre: 0 <= shape <= 3
    post: _
    """
    H.enter()
    # default values are only ever *stored*: the binding must not depend on how they compare
    d, k, sh = _ODD[H.select(di, 0, 1)], H.select(fi, 0, 3), H.select(shape, 0, 3)
    with H.native():
        from joblib.func_inspect import filter_args
        f = _odd_funcs(d)[k]
        args, kwargs = [((1,), {}), ((1,), {"b": 5}), ((1, 5), {}), ((), {"a": 1})][sh]
        try:
            ba = inspect.signature(f).bind(*args, **kwargs)
        except TypeError:
            H.assume(False)
        ba.apply_defaults()
        try:
            got = filter_args(f, [], list(args), dict(kwargs))
        except Exception as e:
            return H.verdict(False, "%s%s called with %r %r: %s: %s" % (f.__name__, inspect.signature(f), args, kwargs,
                                                                         type(e).__name__, e))
        ok = True
        for nm, p in inspect.signature(f).parameters.items():
            if p.kind in (p.VAR_POSITIONAL, p.VAR_KEYWORD):
                continue
            if nm not in got or got[nm] is not ba.arguments[nm] and not (type(got[nm]) is int and got[nm] == ba.arguments[nm]):
                ok = False
        return H.verdict(ok, "%s%s called with %r %r: got %r, Python binds %r" % (
            f.__name__, inspect.signature(f), args, kwargs, got, dict(ba.arguments)))


def validate():
    """The repository's own filter_args test inputs through the oracle."""
    out = []
    from joblib.func_inspect import filter_args

    def f(x, y=1, **kw):
        pass
    out.append(("upstream f(x,y=1)", filter_args(f, [], (1,)) == {"x": 1, "y": 1, "**": {}}, ""))
    out.append(("sig_text", sig_text([["po", 0], ["pk", 1], ["va", 0], ["ko", 0], ["vk", 0]]) ==
                "p0, /, p1=901, *va, p3, **vk", sig_text([["po", 0], ["pk", 1], ["va", 0], ["ko", 0], ["vk", 0]])))
    out.append(("sig count <=5", len(all_sigs(5)) == 1085, str(len(all_sigs(5)))))
    for spec in all_sigs(3):
        try:
            build(spec, False)
            build(spec, True)
        except SyntaxError as e:
            out.append(("build %r" % spec, False, str(e)))
    out.append(("oracle accepts a correct binding", _check_one([["pk", 0], ["pk", 1]], False, [5], [0] * 5, [0] * 5, False, 0), ""))
    return out


def _groups(sigs, size):
    return [sigs[i:i + size] for i in range(0, len(sigs), size)]


def obligations(tier, seed):
    obs = []
    if tier == "quick":
        base = all_sigs(3)
        # boundary family with 4-5 parameters: every kind present, defaults at the edges
        extra = [s for s in all_sigs(5, 4)
                 if len({k for k, _ in s}) >= 4 or (len(s) == 5 and sum(d for _, d in s) in (0, 1))]
        import random
        rnd = random.Random(seed)
        rnd.shuffle(extra)
        extra = sorted(extra[:32], key=repr)
        plan = [("le3", base, False, 16), ("boundary45", extra, False, 4), ("methods_le2", all_sigs(2), True, 16)]
    else:
        plan = [("le5", all_sigs(5), False, 8), ("methods_le4", all_sigs(4), True, 8)]
    obs.append({"name": "odd_defaults", "fn": "ob_odd_defaults", "mode": "S", "timeout": 120,
                "bounds": "defaults that compare equal to everything / element-wise (no truth value) in positional-or-keyword, "
                          "positional-only, keyword-only position and next to *args/**kwargs; 4 call shapes"})
    for label, sigs, method, size in plan:
        for gi, g in enumerate(_groups(sigs, size)):
            obs.append({"name": "bind/%s/%s%03d" % (label, "m" if method else "f", gi), "fn": "ob_bind",
                        "params": {"sigs": g, "method": method}, "timeout": 240 if tier == "quick" else 900,
                        "bounds": "%d signatures (%s ... %s); 0..7 symbolic positionals, keyword mask over named "
                                  "parameters, symbolic int values, optional extra keyword" % (
                                      len(g), sig_text(g[0], method), sig_text(g[-1], method))})
    return obs
