"""C14 - truncated or over-long files make load fail cleanly - never hang or lie.

Real joblib.dump / joblib.load on in-memory files (concrete bytes from the real encoders).
  trunc/<compressor>/<object> (S)   every truncation length 0..len-1 of the dumped file (symbolic index, solver-driven
                                    split): load terminates and raises - or returns exactly the original.
  trail/<compressor> (S)            the complete file followed by every suffix from a list (1 byte, zeros, 9000 bytes of
                                    junk, a second complete stream, a truncated second stream), read through file objects
                                    with and without peek(): load terminates and raises or returns the original.
  readbytes (T)                     _read_bytes with a symbolic size and a symbolic short-read pattern.
  memory/<compress> (S)             a cache entry's output.pkl truncated at any length / followed by junk: the cached call
                                    recomputes the right value and does not raise.
Termination is a safety property here: every raw-file read and every decompress() call burns fuel; running out of fuel
(or the worker's watchdog) is reported as a hang.
"""
import io

from symx import H

PROPERTY = "C14"
DESIGN_REF = "DESIGN.md section 4.14"
TECHNIQUE = ("solver-enumerated truncation points / trailing suffixes (CrossHair+z3 selectors) through the real dump/load "
             "and compressor code with fuel-bounded termination; _read_bytes traced with symbolic size and read pattern")
LEVEL_TEXT = ("Every truncation length of small dumps under 6 compressors x 4 objects (incl. numpy arrays when numpy is "
              "available), every listed suffix of trailing bytes, and every truncation of a Memory entry: load terminates "
              "within its fuel and either raises or returns exactly the original object; Memory recomputes.")
LEVEL_NOTE = ("Trusted: CrossHair/z3, the C codecs and the C pickle primitives joblib builds on. Fuel = 4*(len/block)+64 "
              "calls of raw read / decompress; a 20 s watchdog backs it up. Outside: large files (only the block-boundary "
              "sizes listed), corrupted (not truncated) bytes in the middle of a file.")
EXPLANATION = "Exhaustive truncation/suffix analysis of small real dumps; termination by fuel."
STUBS = ["fuel-counting wrappers around the raw file and zlib.decompressobj", "fakefs for the Memory obligations"]
ASSUMES = ["files are prefixes of valid files or valid files plus a suffix (the property's domain)"]
OUTSIDE = ["bit flips inside a file", "files larger than the listed sizes"]

COMPRESSORS = [None, "zlib", "gzip", "bz2", "lzma", "xz"]


class Fuel(Exception):
    pass


class CountingReader(io.BytesIO):
    """Raw file whose reads burn fuel (detects loops that keep reading at EOF)."""

    def __init__(self, data, fuel, with_peek=True):
        super().__init__(data)
        self.fuel = fuel
        self._with_peek = with_peek

    def read(self, *a):
        self.fuel[0] -= 1
        if self.fuel[0] < 0:
            raise Fuel("raw read() called too many times")
        return super().read(*a)

    def readinto(self, b):
        self.fuel[0] -= 1
        if self.fuel[0] < 0:
            raise Fuel("raw readinto() called too many times")
        return super().readinto(b)

    def __getattribute__(self, name):
        if name == "peek" and not object.__getattribute__(self, "_with_peek"):
            raise AttributeError(name)
        return super().__getattribute__(name)


def _objects(with_numpy):
    shared = [1, 2, 3]
    rec = {"k": shared, "again": shared, "t": (1.5, "x", b"y", None)}
    rec["self"] = rec
    objs = {"small": {"a": [1, 2, 3], "b": "text"}, "graph": rec, "bytes300": b"z" * 300}
    if with_numpy:
        import numpy as np
        objs["array"] = {"arr": np.arange(40, dtype="<f8").reshape(5, 8), "tail": [1, 2]}
        objs["arr_obj"] = np.array(["a", None, 3], dtype=object)
    return objs


def _same(a, b, seen=None):
    """Structural equality that survives self-references and numpy arrays."""
    seen = seen or set()
    if (id(a), id(b)) in seen:
        return True
    seen.add((id(a), id(b)))
    if type(a) is not type(b):
        return False
    if isinstance(a, dict):
        return a.keys() == b.keys() and all(_same(a[k], b[k], seen) for k in a)
    if isinstance(a, (list, tuple)):
        return len(a) == len(b) and all(_same(x, y, seen) for x, y in zip(a, b))
    if type(a).__module__ == "numpy":
        import numpy as np
        if a.dtype != b.dtype or a.shape != b.shape:
            return False
        if a.dtype == object:
            return all(_same(x, y, seen) for x, y in zip(a.ravel().tolist(), b.ravel().tolist()))
        return bool(np.array_equal(a, b))
    return a == b


_PLAN = {}


def prepare(params):
    if "object" not in params:
        return
    import joblib
    with_numpy = params.get("numpy_obj", False)
    obj = _objects(with_numpy)[params["object"]]
    buf = io.BytesIO()
    comp = params.get("compressor")
    joblib.dump(obj, buf, compress=(comp, 3) if comp else 0)
    _PLAN.update(obj=obj, data=buf.getvalue())


def _load_with_fuel(data, with_peek=True, bs=8192):
    """Returns ('value', v) | ('raised', exc) | ('hang', why)."""
    import joblib
    import joblib.compressor as jc
    # the C unpickler of an uncompressed stream may issue several raw reads per opcode: the budget is per byte
    fuel = [16 * len(data) + 256]
    dfuel = [4 * (len(data) // min(bs, 64)) + 64]
    saved_bs = jc._BUFFER_SIZE
    jc._BUFFER_SIZE = bs
    real_dobj = jc.zlib.decompressobj

    class _Z:
        def __init__(self, *a):
            self._d = real_dobj(*a)

        def decompress(self, block, *a):
            dfuel[0] -= 1
            if dfuel[0] < 0:
                raise Fuel("decompress() called too many times")
            return self._d.decompress(block, *a)

        def __getattr__(self, n):
            return getattr(self._d, n)

    class _ZMod:
        def __getattr__(self, n):
            return _Z if n == "decompressobj" else getattr(zlib_real, n)
    zlib_real = jc.zlib
    jc.zlib = _ZMod()
    try:
        with H.Watchdog(90):
            try:
                return ("value", joblib.load(CountingReader(data, fuel, with_peek)))
            except Fuel as e:
                return ("hang", str(e))
            except H.NonTermination as e:
                return ("hang", str(e))
            except MemoryError as e:
                return ("hang", "MemoryError (unbounded growth)")
            except Exception as e:
                return ("raised", e)
    finally:
        jc.zlib = zlib_real
        jc._BUFFER_SIZE = saved_bs


def _judge(res, obj, what):
    kind, v = res
    if kind == "hang":
        H.note("%s: load does not terminate: %s" % (what, v))
        return False
    if kind == "value" and not _same(v, obj):
        H.note("%s: load returned a different object: %r" % (what, v if len(repr(v)) < 200 else type(v)))
        return False
    return True


def ob_trunc(k: int, peek: bool) -> bool:
    """
    pre: 0 <= k <= 3000
    post: _
    """
    H.enter()
    data = _PLAN["data"]
    H.assume(k < len(data))
    kk = H.select_bisect(k, 0, len(data) - 1)
    pk = bool(peek)
    with H.native():
        res = _load_with_fuel(data[:kk], pk)
        ok = _judge(res, _PLAN["obj"], "file truncated to %d of %d bytes" % (kk, len(data)))
        return H.verdict(ok)


def _suffixes(data):
    return [b"x", b"\x00" * 5, bytes((i * 31 + 7) % 256 for i in range(9000)), data, data[:len(data) // 2], b"\n",
            data[:3], b"\x80\x04."]


BLOCKS = [1, 2, 3, 4, 5, 7, 8, 8192]


def ob_trail(si: int, peek: bool, bi: int) -> bool:
    """
    pre: 0 <= si <= 7
    pre: 0 <= bi <= 7
    post: _
    """
    H.enter()
    s, b = H.select(si, 0, 7), H.select(bi, 0, 7)
    pk = bool(peek)
    with H.native():
        data = _PLAN["data"]
        # the raw block size decides where the end-of-stream marker falls relative to a block boundary
        res = _load_with_fuel(data + _suffixes(data)[s], pk, BLOCKS[b])
        ok = _judge(res, _PLAN["obj"], "file followed by suffix #%d, raw block size %d" % (s, BLOCKS[b]))
        return H.verdict(ok)


class ShortReader:
    """fp.read(n) returns at most pattern[i] bytes on the i-th call (a short-reading file), then EOF."""

    def __init__(self, data, pattern):
        self.data, self.pattern, self.i, self.pos = data, pattern, 0, 0
        self.calls = 0

    def read(self, n):
        self.calls += 1
        if self.calls > 40:
            raise Fuel("read() called too many times")
        cap = self.pattern[self.i] if self.i < len(self.pattern) else 0
        self.i += 1
        k = min(n, cap, len(self.data) - self.pos)
        k = max(k, 0)
        out = self.data[self.pos:self.pos + k]
        self.pos += k
        return out


def ob_readbytes(size: int, c0: int, c1: int, avail: int) -> bool:
    """
    pre: 0 <= size <= 4
    pre: 0 <= c0 <= 4 and 0 <= c1 <= 4
    pre: 0 <= avail <= 5
    post: _
    """
    H.enter()
    c2 = 4
    from joblib.numpy_pickle_utils import _read_bytes
    data = b"0123456789ab"[:avail]
    fp = ShortReader(data, [c0, c1, c2])
    try:
        got = _read_bytes(fp, size, "test")
    except ValueError:
        # allowed only if the file really could not deliver `size` bytes before a zero-length read
        delivered = 0
        for c in (c0, c1, c2):
            if delivered == size:
                break
            step = min(size - delivered, c, avail - delivered)
            if step <= 0:
                break
            delivered += step
        return H.verdict(delivered < size, "ValueError although %d bytes were deliverable" % size)
    except Fuel as e:
        return H.verdict(False, "does not terminate: %s" % e)
    return H.verdict(got == data[:size] and len(got) == size, "returned %r for size %d" % (got, size))


def ob_memory(k: int, junk: bool) -> bool:
    """
    pre: 0 <= k <= 3000
    post: _
    """
    H.enter()
    from harness import memlib
    n = _PLAN["mem_len"]
    H.assume(k <= n)
    kk = H.select_bisect(k, 0, n)
    jk = bool(junk)
    with H.native():
        from symx.stubs import fakefs
        fs = fakefs.FS()
        fs.restore(_PLAN["mem_snap"])
        path = _PLAN["mem_path"]
        full = fs.files[path]
        fs.files[path] = full + b"\x00junk" if jk else full[:kk]
        clock = memlib.Clock(start=5000.0)
        probs = []
        with memlib.env(fs, clock):
            try:
                with H.Watchdog(90):
                    memlib.fresh_process()
                    ns = memlib.define(fs, "c14mod", MEM_SRC)
                    g = memlib.new_memory(compress=_PLAN["mem_compress"]).cache(ns["f"])
                    v = g(7)
                    if v != ("r", 7, list(range(30))):
                        probs.append("returned %r" % (v,))
                    v2 = g(7)
                    if v2 != ("r", 7, list(range(30))):
                        probs.append("second call returned %r" % (v2,))
            except Exception as e:
                probs.append("raised %s: %s" % (type(e).__name__, e))
        for m in probs:
            H.note("output.pkl %s: %s" % ("followed by junk" if jk else "truncated to %d of %d" % (kk, n), m))
        return H.verdict(not probs)


MEM_SRC = "def f(a):\n    return ('r', a, list(range(30)))\n"


def _prepare_memory(params):
    from harness import memlib
    from symx.stubs import fakefs
    fs = fakefs.FS()
    clock = memlib.Clock()
    with memlib.env(fs, clock):
        memlib.fresh_process()
        ns = memlib.define(fs, "c14mod", MEM_SRC)
        memlib.new_memory(compress=params["mem_compress"]).cache(ns["f"])(7)
    path = [p for p in fs.files if p.endswith("output.pkl")][0]
    _PLAN.update(mem_snap=fs.snapshot(), mem_path=path, mem_len=len(fs.files[path]), mem_compress=params["mem_compress"])


_orig_prepare = prepare


def prepare(params):      # noqa: F811
    _orig_prepare(params)
    if "mem_compress" in params:
        _prepare_memory(params)


def validate():
    rows = []
    import joblib
    for comp in COMPRESSORS:
        prepare({"object": "graph", "compressor": comp})
        res = _load_with_fuel(_PLAN["data"])
        rows.append(("complete %s file loads to the original within fuel" % comp,
                     res[0] == "value" and _same(res[1], _PLAN["obj"]), str(res[0])))
    rows.append(("oracle notices a different object", not _same({"a": 1}, {"a": 2}), ""))
    return rows


def obligations(tier, seed):
    obs = []
    import os
    have_np = os.path.isdir(os.path.join(os.path.dirname(os.path.dirname(os.path.abspath(__file__))), ".np", "numpy"))
    objs = ["small", "graph"] + (["bytes300"] if tier == "thorough" else [])
    for comp in COMPRESSORS:
        for ob in objs:
            if tier == "quick" and ob == "small" and comp in ("bz2", "lzma", "xz"):
                continue
            obs.append({"name": "trunc/%s/%s" % (comp, ob), "fn": "ob_trunc", "mode": "S",
                        "params": {"object": ob, "compressor": comp}, "timeout": 600,
                        "bounds": "every truncation length of the dump, file object with/without peek()"})
        obs.append({"name": "trail/%s" % comp, "fn": "ob_trail", "mode": "S", "params": {"object": "graph", "compressor": comp},
                    "timeout": 300, "bounds": "8 suffixes (1 byte, zeros, 9000 junk bytes, second stream, half stream, ...) x raw block size in {1,2,3,4,5,7,8,8192}, with/without peek()"})
    if have_np:
        for comp in (None, "zlib", "gzip") if tier == "quick" else COMPRESSORS:
            for ob in ("array",) if tier == "quick" else ("array", "arr_obj"):
                obs.append({"name": "trunc/%s/%s" % (comp, ob), "fn": "ob_trunc", "mode": "S", "numpy": True,
                            "params": {"object": ob, "compressor": comp, "numpy_obj": True}, "timeout": 900,
                            "bounds": "every truncation length of a dump holding a numpy array (raw array bytes included)"})
    obs.append({"name": "readbytes", "fn": "ob_readbytes", "mode": "T", "timeout": 300,
                "bounds": "_read_bytes: size 0..4, 0..5 bytes available, short-read caps c0, c1 in 0..4 then 4 (all symbolic)"})
    for comp in (False, True):
        obs.append({"name": "memory/compress=%s" % comp, "fn": "ob_memory", "mode": "S",
                    "params": {"mem_compress": comp}, "timeout": 600,
                    "bounds": "output.pkl of a cache entry truncated at every length, or followed by junk"})
    return obs
