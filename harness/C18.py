"""C18 - reduce_size enforces every limit by evicting the minimal LRU prefix.

T obligations:
  items/<pattern>   StoreBackendMixin._get_items_to_delete on a symbolic inventory (sizes, access
                    times, limits, clock all z3 Ints), limits None/int by pattern.
  strlimit          bytes_limit given as '<n>K|M|G' (memstr_to_bytes), symbolic n.
  e2e/*             Memory.reduce_size end-to-end on the in-memory file system (added with fakefs).
Lemma:
  memstr_fp         int(1024^k * float(n)) == 1024^k * n for integral n (QF_FP, z3).
"""
from symx import H

PROPERTY = "C18"
EXPLANATION = ("Declarative oracle over the real _get_items_to_delete: all limits hold on the survivors, "
               "evicted set is a prefix in access order, dropping its last element violates a limit.")
STUBS = ["duck-typed datetime/timedelta (integer seconds) substituted for joblib._store_backends.datetime",
         "get_items() returns the symbolic inventory (file system walk is covered by the e2e obligations)"]
ASSUMES = ["sizes >= 0", "limits >= 0 or None", "access times and clock are integers (seconds)"]
OUTSIDE = ["inventories larger than the stated N", "float-valued access times", "concurrent writers"]


class _Delta:
    def __init__(self, s):
        self.s = s

    def total_seconds(self):
        return self.s


class _Now:
    def __init__(self, t):
        self.t = t

    def __sub__(self, d):
        return self.t - d.s


class _DT:
    now_value = 0

    class datetime:
        @staticmethod
        def now():
            return _Now(_DT.now_value)


def _run(items, bytes_limit, items_limit, age, now):
    import joblib._store_backends as sb

    class Store(sb.StoreBackendMixin):
        def get_items(self):
            return list(items)

    old = sb.datetime
    sb.datetime = _DT
    _DT.now_value = now
    try:
        return Store()._get_items_to_delete(bytes_limit, items_limit, None if age is None else _Delta(age))
    finally:
        sb.datetime = old


def _oracle(items, dele, bytes_limit, items_limit, age, now):
    deleted = set(it.path for it in dele)
    if len(deleted) != len(dele):
        H.note("duplicate in deleted list")
        return False
    for it in dele:
        if not any(it is x for x in items):
            H.note("deleted an item that is not in the store")
            return False
    keep = [it for it in items if it.path not in deleted]

    def violates(ks, strict):
        # strict=True: joblib's own convention (an item exactly at the deadline goes);
        # strict=False: the documented one ("older than").  Survivors are checked with the
        # weaker reading, minimality with the stronger, so both conventions are accepted.
        if bytes_limit is not None and sum(it.size for it in ks) > bytes_limit:
            return True
        if items_limit is not None and len(ks) > items_limit:
            return True
        if age is not None:
            for it in ks:
                if strict and it.last_access <= now - age:
                    return True
                if not strict and it.last_access < now - age:
                    return True
        return False

    if violates(keep, False):
        H.note("a limit is violated by the survivors")
        return False
    for d in dele:
        for k in keep:
            if d.last_access > k.last_access:
                H.note("evicted", d.path, "is more recent than survivor", k.path)
                return False
    if dele:
        last_t = max(it.last_access for it in dele)
        cands = [d for d in dele if d.last_access == last_t]
        if not any(violates(keep + [x], True) for x in cands):
            H.note("eviction not minimal: the most recent evicted item could have stayed")
            return False
    return True


def ob_items(s0: int, s1: int, s2: int, s3: int, s4: int,
             t0: int, t1: int, t2: int, t3: int, t4: int,
             bl: int, il: int, age: int, now: int) -> bool:
    """
    pre: s0 >= 0 and s1 >= 0 and s2 >= 0 and s3 >= 0 and s4 >= 0
    pre: bl >= 0 and il >= 0 and age >= 0
    post: _
    """
    H.enter()
    from joblib._store_backends import CacheItemInfo
    n = H.P("N")
    pat = H.P("pattern")
    sizes = [s0, s1, s2, s3, s4][:n]
    times = [t0, t1, t2, t3, t4][:n]
    items = [CacheItemInfo("p%d" % i, sizes[i], times[i]) for i in range(n)]
    bytes_limit = bl if pat[0] else None
    items_limit = il if pat[1] else None
    age_limit = age if pat[2] else None
    dele = _run(items, bytes_limit, items_limit, age_limit, now)
    return H.verdict(_oracle(items, dele, bytes_limit, items_limit, age_limit, now))


def ob_strlimit(n: int, s0: int, s1: int, s2: int, t0: int, t1: int, t2: int) -> bool:
    """
    pre: 0 <= n <= 3
    pre: s0 >= 0 and s1 >= 0 and s2 >= 0
    post: _
    """
    H.enter()
    from joblib._store_backends import CacheItemInfo
    unit = H.P("unit")
    mult = {"K": 1024, "M": 1024 ** 2, "G": 1024 ** 3}[unit]
    text = None
    for v in range(4):           # explicit case split: the string is built from a concrete int
        if n == v:
            text = "%d%s" % (v, unit)
    sizes = [s0, s1, s2]
    times = [t0, t1, t2]
    items = [CacheItemInfo("p%d" % i, sizes[i], times[i]) for i in range(3)]
    dele = _run(items, text, None, None, 0)
    return H.verdict(_oracle(items, dele, n * mult, None, None, 0))


def ob_negative_age(s0: int, t0: int, age: int) -> bool:
    """
    pre: s0 >= 0 and age < 0
    post: _
    """
    H.enter()
    from joblib._store_backends import CacheItemInfo
    try:
        _run([CacheItemInfo("p0", s0, t0)], None, None, age, 0)
    except ValueError:
        return H.verdict(True)
    return H.verdict(False, "negative age_limit accepted")


E2E_SRC = "LOG = []\ndef f(a, pad):\n    LOG.append(a)\n    return ('r', a, 'x' * pad)\n"


def ob_e2e(perm: int, big: int, ghost: int, lim_kind: int, lim: int, stale: bool) -> bool:
    """
    pre: 0 <= perm <= 5
    pre: 0 <= big <= 7
    pre: 0 <= ghost <= 2
    pre: 0 <= lim_kind <= 2
    pre: 0 <= lim <= 4
    post: _
    """
    H.enter()
    H.assume(lim_kind == H.P("lim_kind", 0))
    pm, bg, gh, lk, lv = H.select(perm, 0, 5), H.select(big, 0, 7), H.select(ghost, 0, 2), H.select(lim_kind, 0, 2), H.select(lim, 0, 4)
    st = bool(stale)
    with H.native():
        return H.verdict(_e2e(pm, bg, gh, lk, lv, st))


def _e2e(pm, bg, gh, lk, lv, stale=False):
    """Memory.reduce_size end to end on the model file system: 3 real entries (access order = permutation pm, payload
    sizes by bitmask bg), optionally a 'ghost' entry directory without output.pkl (gh=1: metadata only, gh=2: empty),
    one limit kind (items / bytes / age) with value selector lv."""
    import datetime
    import itertools
    import re
    from symx.stubs import fakefs
    from harness import memlib
    fs = fakefs.FS()
    clock = memlib.Clock()
    with memlib.env(fs, clock):
        memlib.fresh_process()
        ns = memlib.define(fs, "c18mod", E2E_SRC)
        mem = memlib.new_memory()
        g = mem.cache(ns["f"])
        pads = [600 if (bg >> i) & 1 else 5 for i in range(3)]
        for a in range(3):
            g(a, pads[a])
        func_dir = [d for d in fs.dirs if d.endswith("/c18mod/f")][0]
        entries = sorted(d for d in fs.dirs if re.fullmatch("[a-f0-9]{32}", d.rsplit("/", 1)[1]))
        # map entry -> argument
        arg_of = {}
        for a in range(3):
            cid = g._get_args_id(a, pads[a])
            arg_of[func_dir + "/" + cid] = a
        order = list(itertools.permutations(range(3)))[pm]          # order[i] = argument accessed i-th (oldest first)
        now = 10 ** 6
        for rank, a in enumerate(order):
            d = [e for e in entries if arg_of[e] == a][0]
            for p in list(fs.files):
                if p.startswith(d + "/"):
                    fs.atime[p] = now - 1000 * (3 - rank)
            fs.atime[d] = now - 1000 * (3 - rank)
        if gh:
            ghost = func_dir + "/" + "0" * 32
            fs.dirs.add(ghost)
            fs.atime[ghost] = now - 10 ** 5          # the oldest of all
            if gh == 1:
                fs.files[ghost + "/metadata.json"] = b'{"duration": 0.1, "time": 1.0}'
                fs.atime[ghost + "/metadata.json"] = now - 10 ** 5

        def inventory():
            inv = []
            for d in sorted(fs.dirs):
                if re.fullmatch("[a-f0-9]{32}", d.rsplit("/", 1)[1]):
                    files = [p for p in fs.files if p.startswith(d + "/")]
                    out = d + "/output.pkl"
                    at = fs.atime.get(out, fs.atime.get(d, 0)) if out in fs.files else fs.atime.get(d, 0)
                    inv.append((d, sum(len(fs.files[p]) for p in files), at))
            return inv
        before = inventory()
        sizes = sorted(s for _, s, _ in before)
        total = sum(sizes)
        kw = {}
        import joblib._store_backends as sb

        class _Now:
            @staticmethod
            def now():
                return datetime.datetime.fromtimestamp(now)
        saved_dt = sb.datetime
        sb.datetime = type("dt", (), {"datetime": type("d", (), {"now": _Now.now, "fromtimestamp": datetime.datetime.fromtimestamp}),
                                      "timedelta": datetime.timedelta})
        saved_shutil = sb.shutil
        if stale:
            # the removal of the first victim ends with OSError(ESTALE): "another process has deleted the folder
            # already" (the case enforce_store_limits documents) - the other victims still have to go
            state = {"n": 0}

            class _Shutil:
                def __getattr__(self, name):
                    return getattr(saved_shutil, name)

                def rmtree(self, path, *a, **k):
                    state["n"] += 1
                    saved_shutil.rmtree(path, *a, **k)
                    if state["n"] == 1:
                        raise OSError(116, "Stale file handle", path)
            sb.shutil = _Shutil()
        try:
            if lk == 0:
                kw["items_limit"] = lv
            elif lk == 1:
                kw["bytes_limit"] = [0, sizes[0], total - sizes[0], total, total + 1][lv]
            else:
                kw["age_limit"] = datetime.timedelta(seconds=[0, 1500, 2500, 3500, 10 ** 6][lv])
            mem.reduce_size(**kw)
        finally:
            sb.datetime = saved_dt
            sb.shutil = saved_shutil
        after = inventory()
        kept = {d for d, _, _ in after}
        evicted = [x for x in before if x[0] not in kept]
        ok = True
        if "items_limit" in kw and len(after) > kw["items_limit"]:
            H.note("items_limit=%d but %d entries remain (%r)" % (kw["items_limit"], len(after), [d[-6:] for d, _, _ in after]))
            ok = False
        if "bytes_limit" in kw and sum(s for _, s, _ in after) > kw["bytes_limit"]:
            H.note("bytes_limit=%d but %d bytes remain" % (kw["bytes_limit"], sum(s for _, s, _ in after)))
            ok = False
        if "age_limit" in kw:
            dl = now - kw["age_limit"].total_seconds()
            if any(at < dl for _, _, at in after):
                H.note("age_limit: an entry older than the limit remains")
                ok = False
        for e in evicted:
            for k in after:
                if e[2] > k[2]:
                    H.note("evicted %s (atime %r) is more recent than survivor %s (%r)" % (e[0][-6:], e[2], k[0][-6:], k[2]))
                    ok = False
        if evicted:
            last = max(evicted, key=lambda x: x[2])
            k2 = after + [last]
            viol = ("items_limit" in kw and len(k2) > kw["items_limit"]) or \
                   ("bytes_limit" in kw and sum(s for _, s, _ in k2) > kw["bytes_limit"]) or \
                   ("age_limit" in kw and last[2] <= now - kw["age_limit"].total_seconds())
            if not viol:
                H.note("eviction not minimal: %s could have stayed (%r)" % (last[0][-6:], kw))
                ok = False
        # survivors stay loadable, evicted ones are recomputed on demand
        for d, a in arg_of.items():
            del ns["LOG"][:]
            v = g(a, pads[a])
            if v != ("r", a, "x" * pads[a]):
                H.note("entry for %d returned %r" % (a, v))
                ok = False
            if (d in kept) != (ns["LOG"] == []):
                H.note("entry for %d: on disk after reduce_size=%r but body ran=%r" % (a, d in kept, bool(ns["LOG"])))
                ok = False
        if not ok:
            H.note("access order %r pads %r ghost %d limits %r" % (order, pads, gh, kw))
        return ok


def lemma_memstr_fp(params):
    """int(1024^k * float(n)) == 1024^k * n for every integral double n in [0, 2^40], k in 1..3."""
    import time
    import z3
    t0 = time.time()
    n = z3.FP("n", z3.Float64())
    rm = z3.RNE()
    q = 0
    sanity = "sat"
    for k in (10, 20, 30):
        s = z3.Solver()
        u = z3.FPVal(2.0 ** k, z3.Float64())
        dom = [z3.fpGEQ(n, z3.FPVal(0.0, z3.Float64())), z3.fpLEQ(n, z3.FPVal(2.0 ** 40, z3.Float64())),
               z3.fpEQ(z3.fpRoundToIntegral(z3.RTZ(), n), n)]
        s.add(*dom)
        q += 1
        if str(s.check()) != "sat":
            sanity = "unsat-domain"
        prod = z3.fpMul(rm, u, n)
        s.add(z3.Or(z3.Not(z3.fpEQ(z3.fpDiv(rm, prod, u), n)),
                    z3.Not(z3.fpEQ(z3.fpRoundToIntegral(z3.RTZ(), prod), prod))))
        q += 1
        r = str(s.check())
        if r == "sat":
            m = s.model()
            val = float(eval(str(m[n]).replace("*(2**", "*(2.0**"))) if m[n] is not None else 0.0
            return {"verdict": "counterexample", "args": [val, k], "queries": q, "solver_s": time.time() - t0,
                    "sanity": sanity}
        if r != "unsat":
            return {"verdict": "inconclusive", "message": "z3 said %s for k=%d" % (r, k), "queries": q,
                    "solver_s": time.time() - t0, "sanity": sanity}
    return {"verdict": "confirmed", "queries": q, "solver_s": round(time.time() - t0, 2), "sanity": sanity}


def lemma_memstr_fp_replay(val, k):
    from joblib.disk import memstr_to_bytes
    unit = {10: "K", 20: "M", 30: "G"}[k]
    return memstr_to_bytes("%d%s" % (int(val), unit)) == int(val) * 2 ** k


def validate():
    """Upstream test inputs through the oracle (Serval-style)."""
    from joblib.disk import memstr_to_bytes
    out = []
    for text, val in [("80G", 85899345920), ("1.4M", 1468006), ("120M", 125829120), ("53K", 54272)]:
        out.append(("memstr %s" % text, memstr_to_bytes(text) == val, ""))
    from joblib._store_backends import CacheItemInfo
    items = [CacheItemInfo("a", 10, 1), CacheItemInfo("b", 10, 2), CacheItemInfo("c", 10, 3)]
    dele = _run(items, 20, None, None, 0)
    out.append(("oracle accepts bytes_limit=20", _oracle(items, dele, 20, None, None, 0) and
                [d.path for d in dele] == ["a"], str(dele)))
    out.append(("oracle rejects over-eviction", not _oracle(items, items[:2], 20, None, None, 0), ""))
    out.append(("oracle rejects non-LRU", not _oracle(items, items[2:], 20, None, None, 0), ""))
    out.append(("oracle rejects under-eviction", not _oracle(items, [], 20, None, None, 0), ""))
    return out


def obligations(tier, seed):
    obs = []
    pats = [[a, b, c] for a in (0, 1) for b in (0, 1) for c in (0, 1)]
    n_main = 3 if tier == "quick" else 4
    for pat in pats:
        obs.append({"name": "items/N%d/%s" % (n_main, "".join(map(str, pat))), "fn": "ob_items",
                    "params": {"N": n_main, "pattern": pat}, "timeout": 120 if tier == "quick" else 900,
                    "bounds": "N=%d items, sizes>=0, times/now unbounded ints, limits>=0 where pattern=1 "
                              "(bytes,items,age)" % n_main})
    if tier == "thorough":
        for pat in ([1, 0, 0], [0, 1, 0], [0, 0, 1], [1, 1, 0]):
            obs.append({"name": "items/N5/%s" % "".join(map(str, pat)), "fn": "ob_items",
                        "params": {"N": 5, "pattern": pat}, "timeout": 900,
                        "bounds": "N=5 items, one or two limits"})
    for unit in ("K", "M", "G"):
        obs.append({"name": "strlimit/%s" % unit, "fn": "ob_strlimit", "params": {"unit": unit}, "timeout": 120,
                    "bounds": "bytes_limit = '<n>%s', n in 0..3, 3 items with symbolic sizes/times" % unit})
    for lk, nm in enumerate(("items", "bytes", "age")):
        obs.append({"name": "e2e/%s" % nm, "fn": "ob_e2e", "mode": "S", "timeout": 600, "params": {"lim_kind": lk},
                    "bounds": "Memory.reduce_size on the model file system: 3 entries in any access order, small/large "
                              "payloads, optional entry directory without output.pkl, %s limit at 5 boundary values" % nm})
    obs.append({"name": "negative_age", "fn": "ob_negative_age", "timeout": 30, "bounds": "age < 0 => ValueError"})
    obs.append({"name": "lemma/memstr_fp", "fn": "lemma_memstr_fp", "kind": "lemma", "timeout": 120,
                "bounds": "integral doubles n in [0, 2^40], units K/M/G"})
    return obs

DESIGN_REF = "DESIGN.md section 4.18"
TECHNIQUE = "bounded symbolic execution (CrossHair+z3) of _get_items_to_delete with symbolic inventory, limits and clock against a declarative oracle; QF_FP lemma for memstr_to_bytes"
LEVEL_TEXT = ("Every inventory of N items (quick N=3, thorough N<=5) with arbitrary integer sizes>=0, access times, "
              "clock and limits (each None or any int>=0, or a '<n>K/M/G' string) is covered by exhausting the path "
              "tree of the real eviction routine; the solver finds exact-fit/tie/zero-size boundaries itself.")
LEVEL_NOTE = ("Trusted: CrossHair's model of Python ints/lists/sort, z3, the duck-typed integer clock. Outside: N above "
              "the bound, float timestamps, the directory walk that builds the inventory (e2e obligations), concurrency.")
