"""C08 - joblib.hash is a deterministic, order-insensitive, type-discriminating digest.

The digest is md5/sha1 over pickle opcodes (C code): values are never symbolic.  What the solver decides is the
*structure*: which permutation a container is built in, which pair of values is compared.
  order/<kind> (S)      insertion permutation (symbolic distinct indices) of up to 4 items from universes chosen so that
                        CPython's iteration order depends on insertion order (colliding ints 0/8/16, unorderable mixes,
                        nested frozensets): dict / set / frozenset at depth 1 and 2 hash alike in every order.
  canon (S)             _ConsistentSet and Hasher._batch_setitems with the *iteration order itself* symbolic (a list in a
                        symbolic permutation) - exactly the degree of freedom PYTHONHASHSEED has over str keys: the
                        canonical sequence must not depend on it.
  discr (S)             all ordered pairs (i, j), i != j, of a typed universe (1, 1.0, True, 'a', b'a', list/tuple, set/
                        frozenset, nested leaves...): digests differ; i == j (rebuilt copy): digests agree.
  alias (S)             equal but distinct str/bytes objects vs the same object repeated.
  determinism (S)       the same value hashed twice, also through a fresh Hasher, md5 and sha1.
Outside (cannot be addressed by this family): a second interpreter process with another PYTHONHASHSEED; it is
reduced to the 'canon' obligation.
"""
import itertools
from typing import List

from symx import H

PROPERTY = "C08"
DESIGN_REF = "DESIGN.md section 4.8"
TECHNIQUE = ("solver-enumerated permutations / value pairs (CrossHair+z3 selectors) through the real Hasher; the "
             "canonicalisation step traced with a symbolic iteration order")
LEVEL_TEXT = ("Every insertion order of 3-4 element dicts/sets/frozensets (flat and nested) over order-sensitive "
              "universes, every ordered pair of a 35-value typed universe, aliasing vs copies of strings, md5 and sha1: "
              "equal values always hash alike, different values/types never.")
LEVEL_NOTE = ("Trusted: CrossHair/z3 for completeness of the split, hashlib, pickle's opcode emitter. PYTHONHASHSEED "
              "variation is represented only by symbolic iteration orders of the canonicalisation step. Outside: md5 "
              "collisions, values outside the universes, numpy arrays (C19).")
EXPLANATION = "joblib.hash on solver-chosen permutations and value pairs; canonicalisation traced symbolically."
STUBS = ["none"]
ASSUMES = ["md5/sha1 collision freedom on the universe"]
OUTSIDE = ["another interpreter process / hash seed", "engineered digest collisions"]

_NAN = float("nan")       # one object: the rebuilt containers are equal (identity short-cut of ==)

ORDER_UNIVERSES = {
    "ints": [0, 8, 16, 24],                 # collide modulo the table size: iteration follows insertion
    "strs": ["a", "b", "ab", "ba"],
    "mixed_orderable": [0, 8, 1.5, -3],
    "tuples": [(0, 8), (8, 0), (16,), ()],
    "frozensets": [frozenset([0, 8]), frozenset([8, 16]), frozenset(), frozenset([16])],
    # partial orders hidden one level down: sorted() does not raise on these, its result depends on the input order
    "tuples_of_frozensets": [(1, frozenset([0])), (1, frozenset([8])), (1, frozenset([0, 8])), (0, frozenset([16]))],
    "floats_with_nan": [_NAN, 1.0, 2.0, 0.5],
    "mixed_colliding": [-1, -2, "s", None],        # unorderable mix; -1 and -2 collide under the builtin hash
}


def _perm(sel, n=4):
    return list(itertools.permutations(range(n)))[sel]


BIG_UNIVERSES = {
    "ints5": [0, 8, 16, 24, 32],
    "mixed5": [0, "a", None, (1,), 2.5],
    "frozensets5": [frozenset([0, 8]), frozenset([8, 16]), frozenset(), frozenset([16]), frozenset([0, 8, 16])],
}


def ob_order5(p1: int, rev: bool, depth2: bool) -> bool:
    """
    pre: 0 <= p1 <= 119
    post: _
    """
    H.enter()
    a = H.select_bisect(p1, 0, 119)
    rv, d2 = bool(rev), bool(depth2)
    with H.native():
        import joblib
        kind, uni = H.P("kind"), BIG_UNIVERSES[H.P("universe")]
        x = _build(kind, uni, _perm(a, 5), d2)
        y = _build(kind, uni, _perm(119 if rv else 0, 5), d2)
        return H.verdict(joblib.hash(x) == joblib.hash(y), "%s built as %r and as %r hash differently" % (kind, x, y))


def _build(kind, items, order, depth2):
    seq = [items[i] for i in order]
    if kind == "dict":
        v = {}
        for k in seq:
            # (negative int keys share one value: nothing but the key itself can order two of them)
            v[k] = "fs" if isinstance(k, frozenset) else ("neg" if type(k) is int and k < 0 else ("v", k))
    elif kind == "set":
        v = set()
        for k in seq:
            v.add(k)
    else:
        v = frozenset(seq)     # built from a sequence in that order
        s = set()
        for k in seq:
            s.add(k)
        v = frozenset(s) if order[0] % 2 else v
    if depth2:
        v = {"outer": [v, (v if not isinstance(v, (set, dict)) else 1)], "k": 2}
    return v


def ob_order(p1: int, p2: int, depth2: bool, sha: bool) -> bool:
    """
    pre: 0 <= p1 <= 23 and 0 <= p2 <= 23
    post: _
    """
    H.enter()
    H.assume(p2 == 0 or p2 == 23)        # every order against the sorted and the reversed build (equality is transitive)
    a, b = H.select(p1, 0, 23), H.select(p2, 0, 23)
    d2, sh = bool(depth2), bool(sha)
    with H.native():
        import joblib
        kind, uni = H.P("kind"), ORDER_UNIVERSES[H.P("universe")]
        x = _build(kind, uni, _perm(a), d2)
        y = _build(kind, uni, _perm(b), d2)
        name = "sha1" if sh else "md5"
        hx, hy = joblib.hash(x, hash_name=name), joblib.hash(y, hash_name=name)
        return H.verdict(hx == hy, "%s built as %r and as %r hash differently (%s)" % (kind, x, y, name))


class _Rec:
    def __init__(self):
        self.saved = []


def ob_canon(o0: int, o1: int, o2: int, o3: int) -> bool:
    """
    pre: 0 <= o0 <= 3 and 0 <= o1 <= 3 and 0 <= o2 <= 3 and 0 <= o3 <= 3
    pre: o0 != o1 and o0 != o2 and o0 != o3 and o1 != o2 and o1 != o3 and o2 != o3
    post: _
    """
    H.enter()
    # the iteration order of a set/dict is the symbolic input: the canonical sequence fed to the pickler must not
    # depend on it.  (Traced with symbolic indices the sort did not exhaust in 300 s; the permutation is split first.)
    order = [H.select(o0, 0, 3), H.select(o1, 0, 3), H.select(o2, 0, 3), H.select(o3, 0, 3)]
    with H.native():
        return H.verdict(_canon(order))


def _canon(order):
    from joblib.hashing import _ConsistentSet, Hasher
    items = H.P("items")
    items = [tuple(x) if isinstance(x, list) else x for x in items]
    seq = [items[i] for i in order]                 # symbolic permutation of the elements
    base = _ConsistentSet(list(items))._sequence
    got = _ConsistentSet(seq)._sequence
    ok = list(got) == list(base)
    # dict items
    rec = []
    h = Hasher()
    import pickle
    orig = pickle._Pickler._batch_setitems
    try:
        pickle._Pickler._batch_setitems = lambda self, it, *a: rec.append(list(it))
        h._batch_setitems(iter([(k, 1) for k in seq]))
        h._batch_setitems(iter([(k, 1) for k in items]))
    finally:
        pickle._Pickler._batch_setitems = orig
    ok = ok and rec[0] == rec[1]
    if not ok:
        H.note("canonical order depends on the iteration order: %r vs %r" % (got, base))
    return ok


def _typed_universe():
    return [1, 1.0, True, 0, 0.0, False, -1, -2, 2 ** 70, "a", b"a", "", b"", None, (1,), [1], {1}, frozenset([1]),
            {1: 2}, {1: 2.0}, (1, (2,)), (1, [2]), [[1], 2], [[1.0], 2], {"k": [1, "a"]}, {"k": [1, b"a"]},
            ("a", "b"), ("ab",), {0, 8}, frozenset([0, 8]),
            {"k": 0, -1: "v"}, {"k": 0, -2: "v"},    # mixed-type keys; -1 and -2 collide under the builtin hash
            -0.0, {0.0, "z"}, {-0.0, "z"}]           # signed zeros compare equal but are different values (copysign)


def ob_discr(i: int, j: int, sha: bool) -> bool:
    """
    pre: 0 <= i <= 34 and 0 <= j <= 34
    post: _
    """
    H.enter()
    a, b, sh = H.select(i, 0, 34), H.select(j, 0, 34), bool(sha)
    with H.native():
        import joblib
        u1, u2 = _typed_universe(), _typed_universe()      # two independent builds: equal values, distinct objects
        name = "sha1" if sh else "md5"
        hx, hy = joblib.hash(u1[a], hash_name=name), joblib.hash(u2[b], hash_name=name)
        if a == b:
            return H.verdict(hx == hy, "%r hashed twice gives %s and %s" % (u1[a], hx, hy))
        return H.verdict(hx != hy, "%r and %r share the digest %s (%s)" % (u1[a], u2[b], hx, name))


def ob_alias(k: int, as_bytes: bool, container: int) -> bool:
    """
    pre: 0 <= k <= 5
    pre: 0 <= container <= 2
    post: _
    """
    H.enter()
    kk, ab, c = H.select(k, 0, 5), bool(as_bytes), H.select(container, 0, 2)
    # equal but distinct *tuples*: pickle memoises them, only str/bytes opt out (recorded finding, see DESIGN section 6)
    H.known("KF-C08-aliased-tuples", kk >= 4)
    with H.native():
        import joblib
        if kk >= 4:
            s1 = [(1, 2), (1, "a")][kk - 4]
            s2 = tuple(list(s1))
        else:
            base = ["aa", "x" * 40, "", "é"][kk]
            s1 = base.encode("utf-8") if ab else base
            s2 = (base + "Z")[:-1]
            s2 = s2.encode("utf-8") if ab else s2          # equal, distinct object
        if s1 is s2 and len(s1) > 1:
            return H.verdict(False, "could not build a distinct equal string")
        same = [[s1, s1], (s1, s1), {"p": s1, "q": s1}][c]
        copy = [[s1, s2], (s1, s2), {"p": s1, "q": s2}][c]
        return H.verdict(joblib.hash(same) == joblib.hash(copy),
                         "%r (same object twice) and %r (equal copies) hash differently" % (same, copy))


def validate():
    import joblib
    rows = []
    # upstream pinned digests (test_hashes_stay_the_same)
    rows.append(("upstream digest 1", joblib.hash("This is a string to hash") == "71b3f47df22cb19431d85d92d0b230b2", ""))
    rows.append(("upstream digest 2", joblib.hash({"abcde": 123, "sadfas": [-9999, 2, 3]}) == "aeda150553d4bb5c69f0e69d51b0e2ef", ""))
    rows.append(("universe has 35 values", len(_typed_universe()) == 35, ""))
    return rows


def obligations(tier, seed):
    obs = []
    for kind in ("dict", "set", "frozenset"):
        for uni in ORDER_UNIVERSES:
            obs.append({"name": "order/%s/%s" % (kind, uni), "fn": "ob_order", "mode": "S",
                        "params": {"kind": kind, "universe": uni}, "timeout": 600,
                        "bounds": "two of the 24 insertion orders of 4 items (%s), flat or nested, md5 or sha1" % uni})
    for nm, items in [("ints", [0, 8, 16, 24]), ("strs", ["a", "b", "ab", "ba"]), ("tuples", [[0, 8], [8, 0], [16], []]),
                      ("floats", [1.5, -3.0, 0.0, 7.25]), ("mixed", [1, "a", None, [2]])]:
        obs.append({"name": "canon/%s" % nm, "fn": "ob_canon", "mode": "S", "params": {"items": items}, "timeout": 300,
                    "bounds": "all 24 iteration orders (symbolic permutation) of 4 %s elements" % nm})
    if tier == "thorough":
        for kind in ("dict", "set", "frozenset"):
            for uni in BIG_UNIVERSES:
                obs.append({"name": "order5/%s/%s" % (kind, uni), "fn": "ob_order5", "mode": "S",
                            "params": {"kind": kind, "universe": uni}, "timeout": 900,
                            "bounds": "all 120 insertion orders of 5 items (%s) against the first and the last order" % uni})
    obs.append({"name": "discr", "fn": "ob_discr", "mode": "S", "timeout": 600,
                "bounds": "all 1225 ordered pairs of a 35-value typed universe, md5 and sha1"})
    obs.append({"name": "alias", "fn": "ob_alias", "mode": "S", "timeout": 120, "kf": ["KF-C08-aliased-tuples"],
                "bounds": "4 strings x str/bytes (and 2 tuples) x list/tuple/dict: the same object twice vs equal distinct objects"})
    return obs
