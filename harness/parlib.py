"""Shared driver for the Parallel harnesses (C01 C04 C09 C16 C10c): builds a Parallel object on a simulated
pool (symx.stubs.parsim), runs calls under a given schedule and returns everything the oracles need."""
import contextlib
import types

from symx.stubs import parsim

BACKENDS = ["stub_cb", "stub_legacy", "threading", "multiprocessing", "loky"]
# "stub_noabort": a callback-flavour backend that keeps ParallelBackendBase's default abort_everything (a no-op):
# batches of an aborted call keep completing, possibly while the next call runs (stale callbacks)


class TaskError(Exception):
    pass


class IterError(Exception):
    pass


class IterBaseError(BaseException):
    """A failure of the input that is not an Exception (KeyboardInterrupt, SystemExit, a cancellation token)."""


class Tasks:
    """Instrumented input iterable: counts items taken, detects re-entrant / concurrent next()."""

    def __init__(self, sim, call_no, n, fn, fail_at=None, log=None, has_len=False, slow_at=None, slow_until=None,
                 iter_raises=False):
        self.sim, self.call_no, self.n, self.fn, self.fail_at = sim, call_no, n, fn, fail_at
        self.slow_at, self.slow_until = slow_at, slow_until      # a lazy producer that is slow at one item
        self.iter_raises = iter_raises
        self.fail_base = False
        self.i = 0
        self.busy = False
        self.log = log if log is not None else []
        self.closed_after = None

    def __iter__(self):
        if self.iter_raises:
            self.log.append(("iter-raise", self.call_no, -1))
            raise (IterBaseError if self.iter_raises == "base" else IterError)("__iter__ failed")
        return self

    def __next__(self):
        from joblib.parallel import delayed
        if self.busy:
            self.log.append(("REENTRANT", self.call_no, self.i))
            raise RuntimeError("input iterator entered from two threads at once")
        self.busy = True
        try:
            self.sim.sp("next")
            if self.slow_at is not None and self.i == self.slow_at and self.slow_until is not None:
                self.sim.other_thread_wait(self.slow_until)
                sim = self.sim
                if not self.slow_until() and sim.current is sim.cb and getattr(sim, "_main_waiting_lock", False) \
                        and sim.lock_owner is sim.cb:
                    # the producer is still not ready, and the caller cannot run: it waits for Parallel's lock, which
                    # this (callback) thread holds while it sits here
                    self.log.append(("consumer-blocked", self.call_no, self.i, len(sim.events), sim.n_tasks_finished))
            if self.fail_at is not None and self.i == self.fail_at:
                self.log.append(("iter-raise", self.call_no, self.i))
                raise (IterBaseError if self.fail_base else IterError)("iterator failed at %d" % self.i)
            if self.i >= self.n:
                raise StopIteration
            i = self.i
            self.i += 1
            self.log.append(("take", self.call_no, i, self.sim.current.name, len(self.sim.events)))
            return delayed(self.fn)(self.call_no, i)
        finally:
            self.busy = False


class SizedTasks(Tasks):
    """An input with a length (Parallel uses it for its progress messages only)."""

    def __len__(self):
        return self.n


_INSTRUMENTED = {}


@contextlib.contextmanager
def stmt_level(sim, enabled):
    """Swap in the statement-instrumented copy of joblib.parallel (built once per process from the current source)."""
    if not enabled:
        yield
        return
    import sys
    import joblib
    if "mod" not in _INSTRUMENTED:
        _INSTRUMENTED["mod"] = parsim.instrumented_parallel_module()
    real = sys.modules["joblib.parallel"]
    sys.modules["joblib.parallel"] = _INSTRUMENTED["mod"]
    joblib.parallel = _INSTRUMENTED["mod"]
    parsim.CURRENT[0] = sim
    try:
        yield
    finally:
        parsim.CURRENT[0] = None
        sys.modules["joblib.parallel"] = real
        joblib.parallel = real


@contextlib.contextmanager
def installed(sim, durations=(), warn_raises=False):
    import joblib.parallel as jp
    import joblib._parallel_backends as pb
    saved = [(jp, "time", jp.time), (pb, "ThreadPool", pb.ThreadPool), (pb, "MemmappingPool", pb.MemmappingPool),
             (pb, "get_memmapping_executor", pb.get_memmapping_executor), (jp, "warnings", jp.warnings),
             (pb, "warnings", pb.warnings), (pb, "gc", pb.gc)]
    jp.time = parsim.SimTime(sim, jp.time)
    # Threads started by joblib.parallel itself (the detached _GeneratorExitThread of a generator closed / collected in
    # a foreign thread) do not run on their own: the harness decides when (run_deferred).
    real_threading = jp.threading
    sim.deferred = []

    class _DeferredThread(real_threading.Thread):
        def start(self):
            sim.deferred.append(self)

    class _ThreadingShim:
        Thread = _DeferredThread

        def __getattr__(self, name):
            return getattr(real_threading, name)
    saved.append((jp, "threading", real_threading))
    jp.threading = _ThreadingShim()
    pb.ThreadPool = lambda n, *a, **k: parsim.SimPool(sim, n)
    pb.MemmappingPool = lambda n, *a, **k: parsim.SimPool(sim, n)
    state = {"executor": None, "kill_at": None, "n_executors": 0}
    sim.executor_state = state

    def get_exec(n, **k):
        ex = state["executor"]
        if ex is None or ex.broken or ex.shutdown_called or ex.max_workers != n:
            ex = parsim.SimExecutor(sim, n, kill_at=state["kill_at"])
            state["executor"] = ex
            state["n_executors"] += 1
        return ex
    pb.get_memmapping_executor = get_exec
    warned = []
    sim.warned = warned
    def _warn(*a, **k):
        warned.append(str(a[0])[:120] if a else "")
        if warn_raises:
            raise UserWarning(str(a[0])[:120] if a else "")      # python -W error
    w = types.SimpleNamespace(warn=_warn,
                              catch_warnings=jp.warnings.catch_warnings, simplefilter=lambda *a, **k: None)
    jp.warnings = w
    pb.warnings = w
    pb.gc = types.SimpleNamespace(collect=lambda: None)
    try:
        yield
    finally:
        for mod, name, val in saved:
            setattr(mod, name, val)


def make_backend(kind, sim, n_workers):
    import joblib._parallel_backends as pb
    from joblib._parallel_backends import ParallelBackendBase
    if kind == "threading":
        return pb.ThreadingBackend(nesting_level=0)
    if kind == "multiprocessing":
        be = pb.MultiprocessingBackend(nesting_level=0)
        be.in_main_thread = lambda: True
        return be
    if kind == "loky":
        be = pb.LokyBackend(nesting_level=0)
        be.in_main_thread = lambda: True
        return be

    class _Job:
        def __init__(self):
            self.res = parsim._AsyncResult(sim)

        def get(self, timeout=None):
            return self.res.get(timeout)

    class StubBackend(ParallelBackendBase):
        supports_retrieve_callback = (kind in ("stub_cb", "stub_noabort"))
        supports_sharedmem = True
        uses_threads = True

        def effective_n_jobs(self, n_jobs):
            return n_workers

        def configure(self, n_jobs=1, parallel=None, **kw):
            self.parallel = parallel
            self._terminated = False
            sim.sp("configure")
            return n_workers

        _epoch = 0

        def submit(self, func, callback=None):
            job = _Job()
            epoch = self._epoch          # a submission that races with abort_everything is cancelled by it

            def runner():
                if kind != "stub_noabort" and self._epoch != epoch:
                    sim.n_tasks_finished += 1
                    return
                try:
                    sim.sp("task")
                    out = ("ok", func())
                except BaseException as e:
                    out = ("err", e)
                sim.n_tasks_finished += 1
                if out[0] == "ok":
                    job.res.value = out[1]
                else:
                    job.res.exc = out[1]
                job.res.done = True
                if callback is not None:
                    if kind in ("stub_cb", "stub_noabort"):
                        callback(out)
                    else:
                        callback()
            if kind != "stub_noabort" and getattr(self, "_terminated", False):
                # submitted to a backend that has been terminated (a callback of the failed call that was still inside
                # dispatch_one_batch): a dead pool never runs it (real pools raise in their own, equally dead, handler
                # thread)
                sim.events.append(("submit-to-terminated-backend",))
                return job
            sim.submit(runner, tag=func)
            return job

        def retrieve_result_callback(self, out):
            if out[0] == "err":
                raise out[1]
            return out[1]

        def retrieve_result(self, out, timeout=None):
            if kind == "stub_legacy" and getattr(self, "_terminated", False):
                # a backend whose job handles die with it (remote store, closed connection)
                raise RuntimeError("result requested after the backend was terminated")
            return out.get(timeout)

        def terminate(self):
            self._terminated = True
            if kind != "stub_noabort":
                # a terminated pool does not run what was still queued (Pool.terminate(), executor shutdown with
                # kill_workers): also a submission that slipped in between abort_everything() and terminate()
                self._epoch += 1
                sim.drop_pending()

        def abort_everything(self, ensure_ready=True):
            sim.sp("abort")
            if kind != "stub_noabort":
                self._epoch += 1
                sim.drop_pending()

        def batch_completed(self, batch_size, duration):
            sim.sp("batch_completed")

        def compute_batch_size(self):
            sim.sp("compute_batch_size")
            return 1

    return StubBackend(nesting_level=0)


class Outcome:
    pass


def run(cfg, sched):
    """cfg: dict(backend, n_workers, calls=[dict(n_tasks, fail_at, iter_fail_at, consume, ...)], pre_dispatch,
    batch_size, return_as, timeout, use_with, stuck, durations, kill_at)
    sched: dict(preempt=[(pos, alt)], picks=[...])"""
    import joblib.parallel as jp
    if cfg.get("cb_threads", 1) > 1:
        sim = parsim.MultiSim(n_cb=cfg["cb_threads"], preempt=sched.get("preempt", ()), picks=sched.get("picks", ()),
                              stuck=cfg.get("stuck", ()))
    else:
        sim = parsim.Sim(preempt=sched.get("preempt", ()), picks=sched.get("picks", ()), stuck=cfg.get("stuck", ()))
    out = Outcome()
    out.sim = sim
    out.calls = []
    out.exec_log = []          # (call_no, i) in execution order
    out.iter_log = []
    durations = list(cfg.get("durations", ()))

    out.leftovers = []
    out.detached_errors = []
    out.hooks = cfg.get("hooks", {})
    sim.meta_fn = lambda: len(out.calls)          # how many calls had finished when a batch was submitted

    def tag_fn(func):
        f = getattr(func, "func", func)           # _TracebackCapturingWrapper
        items = getattr(f, "items", None)
        if items:
            return tuple(items[0][1][:2])         # (call_no, index of the batch's first task)
        return None
    sim.tag_fn = tag_fn
    sim.stuck_tags = set(tuple(t) for t in cfg.get("stuck_tasks", ()))

    def task(call_no, i):
        out.exec_log.append((call_no, i))
        finished_at_submit = sim.submit_meta.get(sim.running_seq)
        if finished_at_submit is not None and call_no < finished_at_submit:
            out.leftovers.append((call_no, i, "submitted after %d calls had finished" % finished_at_submit))
        k = len(out.exec_log) - 1
        if k < len(durations):
            sim.clock += durations[k]
        c = cfg["calls"][call_no]
        if c.get("fail_at") is not None and i == c["fail_at"]:
            raise TaskError("task %d of call %d failed" % (i, call_no))
        return (call_no, i)

    with stmt_level(sim, cfg.get("stmt")), installed(sim, durations, cfg.get("warn_raises", False)):
        import joblib.parallel as jp            # the instrumented copy when statement-level switching is on
        sim.executor_state["kill_at"] = cfg.get("kill_at")
        be = make_backend(cfg["backend"], sim, cfg["n_workers"])
        kw = {}
        if cfg.get("timeout") is not None:
            kw["timeout"] = cfg["timeout"]
        if cfg.get("verbose"):
            kw["verbose"] = cfg["verbose"]
        p = jp.Parallel(n_jobs=cfg["n_workers"], backend=be, pre_dispatch=cfg.get("pre_dispatch", "2*n_jobs"),
                        batch_size=cfg.get("batch_size", 1), return_as=cfg.get("return_as", "list"), **kw)
        p._print = lambda msg: sim.events.append(("print", str(msg)[:60]))     # progress output is not the subject
        if hasattr(p, "_lock"):
            p._lock = parsim.SimLock(sim)
        out.parallel = p
        if "setup" in out.hooks:
            out.hooks["setup"](sim, p, out)
        ctx = p if cfg.get("use_with") else contextlib.nullcontext()
        try:
            if "script" in out.hooks:
                # a harness-defined sequence of operations instead of the standard call loop
                out.hooks["script"](sim, p, out, lambda call_no, n, **k: Tasks(sim, call_no, n, task, k.get("iter_fail_at"), out.iter_log))
                ctx = contextlib.nullcontext()
                cfg = dict(cfg, calls=[])
            with ctx:
                for call_no, c in enumerate(cfg["calls"]):
                    rec = {"call": call_no, "result": None, "exc": None, "taken_before": len(out.iter_log)}
                    if c.get("run_deferred_before"):
                        run_deferred(sim, out)
                    rec["deferred_pending_at_start"] = len(sim.deferred)
                    tasks = (SizedTasks if c.get("has_len") else Tasks)(
                                  sim, call_no, c["n_tasks"], task, c.get("iter_fail_at"), out.iter_log,
                                  slow_at=c.get("slow_at"),
                                  iter_raises=c.get("iter_raises", False),
                                  slow_until=((lambda: False) if c.get("slow_kind") == "forever" else
                                              (lambda: bool(p._aborting))) if c.get("slow_at") is not None else None)
                    rec["tasks"] = tasks
                    tasks.fail_base = bool(c.get("iter_fail_base"))
                    try:
                        if cfg.get("return_as", "list") == "list":
                            rec["result"] = p(tasks)
                        else:
                            holder = [p(tasks)]       # the only reference: consume() can really drop the generator
                            rec["result"] = consume(sim, p, holder, c, rec, out)
                    except BaseException as e:
                        if isinstance(e, (parsim.SimHang, parsim.SimStop)):
                            raise
                        rec["exc"] = e
                    rec["taken_total"] = tasks.i
                    rec["events_at_end"] = len(sim.events)
                    out.calls.append(rec)
            run_deferred(sim, out)           # a detached thread that has not had the CPU yet runs at the latest now
            sim.drain()
            out.hang = None
        except parsim.SimHang as e:
            out.hang = str(e)
        finally:
            out.cb_errors = list(sim.cb_errors)
            out.steps = sim.steps
            sim.shutdown()
    return out


def run_deferred(sim, out):
    """Run the bodies of the threads joblib.parallel started (in start order), in the current logical thread."""
    while sim.deferred:
        t = sim.deferred.pop(0)
        try:
            t.run()
        except BaseException as e:
            if isinstance(e, (parsim.SimHang, parsim.SimStop)):
                raise
            out.detached_errors.append("%s: %s" % (type(e).__name__, e))


def consume(sim, p, holder, c, rec, out):
    """Generator consumption protocol: pull `pulls` items, then close / drop / exhaust; optionally try an
    overlapping call first."""
    gen = holder.pop()
    got = []
    pulls = c.get("pulls")
    rec["overlap"] = None
    n = 0
    it = iter(gen)
    while pulls is None or pulls == "available" or n < pulls:
        if pulls == "available":
            # pull exactly while a result is owed: something finished and undelivered, or still able to finish
            owed = len([x for x in out.exec_log if x[0] == rec["call"]]) - len(got)
            more = any(not sim._is_stuck(q, r) for q, r in sim.pending) or \
                getattr(sim, "n_started", 0) > sim.n_tasks_finished
            if owed <= 0 and not more:
                break
        try:
            sim.sp("pull")
            got.append(next(it))
            rec.setdefault("pull_events", []).append(len(sim.events))
        except StopIteration:
            break
        n += 1
    if c.get("overlap"):
        try:
            p(Tasks(sim, 99, 1, lambda a, b: ("overlap", b), None, []))
            rec["overlap"] = "accepted"
        except RuntimeError:
            rec["overlap"] = "RuntimeError"
        except BaseException as e:
            rec["overlap"] = "other:%s" % type(e).__name__
    end = c.get("end", "exhaust")
    rec["submitted_before_end"] = sim.n_submitted
    if end == "close":
        try:
            gen.close()
        except Warning as e:          # warnings turned into errors
            rec["close_raised"] = repr(e)
    elif end == "close_other_thread":
        # the generator is closed (collected) by a thread that is not the one that called Parallel: joblib detaches the
        # abort to a thread of its own.  c["deferred_at"]: None = that thread runs to completion before anything else
        # happens; k = it only gets the CPU k switch points later (possibly inside the next call), while the caller's
        # thread holds no lock.
        import threading as _threading
        box = {}

        def _close():
            try:
                gen.close()
            except BaseException as e:          # noqa
                box["exc"] = e
        th = _threading.Thread(target=_close, name="foreign-closer")
        th.start()
        th.join()
        if "exc" in box:
            if isinstance(box["exc"], (parsim.SimHang, parsim.SimStop)):
                raise box["exc"]
            rec["close_raised"] = repr(box["exc"])
        rec["detached_threads"] = len(sim.deferred)
        k = c.get("deferred_at")
        if k is None:
            run_deferred(sim, out)
        else:
            target = sim.steps + k
            prev = sim.on_switch_point
            busy = [False]

            def _hook(sim_, tag):
                if prev is not None:
                    prev(sim_, tag)
                if sim_.deferred and not busy[0] and sim_.steps >= target and sim_.current is sim_.main \
                        and sim_.lock_owner is None:
                    busy[0] = True
                    try:
                        run_deferred(sim_, out)
                    finally:
                        busy[0] = False
            sim.on_switch_point = _hook
    elif end == "drop":
        del it
        del gen
        import gc
        gc.collect()
    else:
        for x in it:
            got.append(x)
    rec["submitted_after_end"] = sim.n_submitted
    return got
