"""C10 - a dying loky worker yields a prompt error, never a hang, and workers heal.

Real process death, pipes and connection.wait cannot be encoded; the property is reduced to the decision kernels that make
it hold, each executed on stubs:
  manager/<n> (T)   one step of _ExecutorManagerThread.wait_result_broken_or_wakeup + terminate_broken on a stub `self`
                    with a stub wait(): symbolic readiness of the result pipe / wake-up pipe / each worker sentinel,
                    what recv() yields, liveness of each worker, number of pending work items.  Every worker sentinel,
                    the result reader and the wake-up reader are waited on; sentinel-only readiness => broken with
                    TerminatedWorkerError; after terminate_broken every pending future failed with it, flags broken,
                    every worker killed, nothing pending.
  submit_race/<n> (S) ProcessPoolExecutor.submit (real code, stub executor sharing flags and pending items) issued at a
                    symbolic statement boundary of terminate_broken: a call dispatching while the death is being handled
                    either gets the TerminatedWorkerError from submit or a future that terminate_broken fails - never a
                    future nobody will complete, never a plain "shut down" error.
  exitcode (T)      the exit-code formatting used in that error message, symbolic exit code in [-70, 260]: never raises.
  reuse (S)         get_reusable_executor / _resize on a stub executor class: broken or shut down => a new instance,
                    otherwise the same instance resized to exactly the requested worker count (grow and shrink).
  kill/<cfg> (S)    joblib's side (LokyBackend.abort_everything / configure / terminate, Parallel._abort/_retrieve) on the
                    simulated executor with a worker death at a symbolic batch / between calls under a symbolic schedule:
                    the affected call raises TerminatedWorkerError and terminates, at most one call fails per fault, the
                    next call returns exactly its results on a fresh executor.
"""
import threading
import types
from concurrent.futures import Future

from symx import H
from harness import parlib

PROPERTY = "C10"
DESIGN_REF = "DESIGN.md section 4.10"
TECHNIQUE = ("bounded symbolic execution (CrossHair+z3) of loky's manager-thread decision step and exit-code formatting "
             "on stubs; solver-enumerated fault positions/schedules for joblib's recovery path on a simulated executor")
LEVEL_TEXT = ("All readiness patterns of result/wake-up pipes and 1..3 worker sentinels, recv outcomes, liveness masks and "
              "0..3 pending items for the manager step; every exit code in [-66,12] and 254..256; every reuse/resize decision for "
              "1..4 workers; worker death at any batch or between calls under any single pre-emption for joblib's side.")
LEVEL_NOTE = ("Trusted: CrossHair/z3; the stubs (wait, recv, process objects, executor class, simulated executor). This is "
              "a reduction to kernels: real process death, OS waits, pipes and signal timing are NOT encoded (stated as "
              "outside); the claim is that the decision logic reacts correctly to every observable pattern.")
EXPLANATION = "Kernel-level checks of loky's breakage detection and joblib's recovery; OS behaviour outside."
STUBS = ["stub self / wait / recv / process objects for _ExecutorManagerThread", "stub executor class for reuse", "parsim SimExecutor with a death fault"]
ASSUMES = ["a dead worker's sentinel is reported ready by wait()", "result/wake-up pipes behave as multiprocessing connections"]
OUTSIDE = ["hangs inside OS-level waits", "signal delivery timing", "corruption of the result pipe by a dying worker",
           "real worker processes"]


class Reader:
    def __init__(self, name, item=None, exc=None):
        self.name, self.item, self.exc = name, item, exc

    def recv(self):
        if self.exc:
            raise self.exc
        return self.item


class Proc:
    def __init__(self, i, alive, exitcode):
        self.sentinel = ("sentinel", i)
        self.name = "w%d" % i
        self.exitcode = exitcode
        self.pid = 100 + i
        self._alive = alive
        self._worker_exit_lock = types.SimpleNamespace(release=lambda: None)

    def is_alive(self):
        return self._alive

    def join(self, *a):
        pass


def _manager_step(n_workers, n_pending, r_ready, w_ready, s_mask, alive_mask, recv_kind):
    import joblib.externals.loky.process_executor as pe
    procs = {100 + i: Proc(i, alive_mask[i], None if alive_mask[i] else -9) for i in range(n_workers)}
    result_reader = Reader("result", item=pe._ResultItem(0, result=1) if recv_kind == 0 else pe._RemoteTraceback("tb"),
                           exc=(EOFError("x") if recv_kind == 2 else None))
    wake_reader = Reader("wake")
    waited = []

    def fake_wait(objs, timeout=None):
        waited.extend(objs)
        ready = []
        if r_ready:
            ready.append(result_reader)
        if w_ready:
            ready.append(wake_reader)
        for i, p in enumerate(procs.values()):
            if s_mask[i] and p.sentinel in objs:
                ready.append(p.sentinel)
        if not ready:
            raise AssertionError("wait() would block forever: nothing it was given is ready")
        return ready
    killed = []
    futures = [Future() for _ in range(n_pending)]
    pending = {i: types.SimpleNamespace(future=fu) for i, fu in enumerate(futures)}
    flags = pe._ExecutorFlags(threading.Lock())
    me = types.SimpleNamespace(
        result_queue=types.SimpleNamespace(_reader=result_reader, close=lambda: None),
        thread_wakeup=types.SimpleNamespace(_reader=wake_reader, clear=lambda: None, close=lambda: None),
        processes=procs, pending_work_items=pending, executor_flags=flags,
        shutdown_lock=threading.Lock(), processes_management_lock=threading.Lock(),
        call_queue=types.SimpleNamespace(close=lambda: None, join_thread=lambda: None, put_nowait=lambda x: None,
                                         full=lambda: False, _maxsize=10),
    )
    T = pe._ExecutorManagerThread
    for nm in ("kill_workers", "join_executor_internals", "shutdown_workers", "get_n_children_alive"):
        setattr(me, nm, types.MethodType(getattr(T, nm), me))
    saved = (pe.wait, pe.kill_process_tree)
    import joblib.externals.loky.backend.utils as lu
    saved_sleep = lu.time
    lu.time = types.SimpleNamespace(sleep=lambda s: None)
    pe.wait = fake_wait
    pe.kill_process_tree = lambda p: killed.append(p.pid)
    try:
        sentinels = [p.sentinel for p in procs.values()]
        try:
            item, broken, bpe = T.wait_result_broken_or_wakeup(me)
        except AssertionError as e:
            H.note(str(e))
            return False
        missing = [s for s in sentinels if s not in waited]
        if missing or result_reader not in waited or wake_reader not in waited:
            H.note("not waited on: %r (result %r, wake-up %r)" % (missing, result_reader in waited, wake_reader in waited))
            return False
        if r_ready:
            exp_broken = recv_kind != 0
        elif w_ready:
            exp_broken = False
        else:
            exp_broken = True
            if not isinstance(bpe, pe.TerminatedWorkerError):
                H.note("sentinel-only readiness gave %r" % (bpe,))
                return False
        if broken != exp_broken:
            H.note("broken=%r, expected %r" % (broken, exp_broken))
            return False
        if broken:
            T.terminate_broken(me, bpe)
            if not all(fu.done() and fu.exception() is bpe for fu in futures):
                H.note("a pending future was not failed")
                return False
            if flags.broken is not bpe or pending:
                H.note("executor not flagged broken / work still pending")
                return False
            if sorted(killed) != sorted(100 + i for i in range(n_workers)):
                H.note("workers killed: %r" % (killed,))
                return False
        return True
    finally:
        pe.wait, pe.kill_process_tree = saved
        lu.time = saved_sleep


def ob_manager(n_pending: int, r_ready: bool, w_ready: bool, s0: bool, s1: bool, s2: bool,
               a0: bool, a1: bool, a2: bool, recv_kind: int) -> bool:
    """
    pre: 0 <= n_pending <= 3 and 0 <= recv_kind <= 2
    post: _
    """
    H.enter()
    nw = H.P("n_workers")
    s_mask, a_mask = [s0, s1, s2][:nw], [a0, a1, a2][:nw]
    for x in [s0, s1, s2][nw:] + [a0, a1, a2][nw:]:
        H.assume(not x)
    # a worker whose sentinel is ready is dead; a dead worker's sentinel is ready (OS contract)
    for s, a in zip(s_mask, a_mask):
        H.assume(s == (not a))
    H.assume(r_ready or w_ready or any(s_mask))
    npend = H.select(n_pending, 0, 3)
    rk = H.select(recv_kind, 0, 2)
    ok = _manager_step(nw, npend, bool(r_ready), bool(w_ready), [bool(x) for x in s_mask], [bool(x) for x in a_mask], rk)
    return H.verdict(ok)


def _submit_race(n_workers, n_pending, k, flavour):
    """terminate_broken (real) on a stub manager; one ProcessPoolExecutor.submit (real, on a stub executor sharing the
    flags and the pending-work dict) issued by the caller at hook #k: before terminate_broken, before each
    future.set_exception, before pending.clear(), before each kill, before join_executor_internals, or after it.
    flavour 0: death noticed now (terminate_broken runs); 1: the executor was shut down, not broken."""
    import queue
    import joblib.externals.loky.process_executor as pe
    hooks = {"n": 0}
    outcome = {}
    bpe = pe.TerminatedWorkerError("a worker died")
    flags = pe._ExecutorFlags(threading.Lock())

    def fn():
        return 1

    def do_submit():
        try:
            outcome["future"] = pe.ProcessPoolExecutor.submit(ex, fn)
        except BaseException as e:              # noqa
            outcome["raised"] = e

    def hook(tag):
        if hooks["n"] == k:
            outcome["at"] = tag
            do_submit()
        hooks["n"] += 1

    class Fut(Future):
        def set_exception(self, exc):
            hook("before failing a pending future")
            return Future.set_exception(self, exc)

    class Pending(dict):
        def clear(self):
            hook("before pending_work_items.clear()")
            return dict.clear(self)

    class Conn:
        """multiprocessing Connection: using it after close() raises OSError('handle is closed')."""

        def __init__(self):
            self.closed = False

        def close(self):
            self.closed = True

        def send_bytes(self, b):
            if self.closed:
                raise OSError("handle is closed")

        def poll(self, *a):
            if self.closed:
                raise OSError("handle is closed")
            return False
    wake = pe._ThreadWakeup.__new__(pe._ThreadWakeup)          # the real class on stand-in connections
    wake._closed, wake._reader, wake._writer = False, Conn(), Conn()
    procs = {100 + i: Proc(i, i != 0, None if i != 0 else -9) for i in range(n_workers)}
    futures = [Fut() for _ in range(n_pending)]
    pending = Pending((i, types.SimpleNamespace(future=fu)) for i, fu in enumerate(futures))
    ex = types.SimpleNamespace(_flags=flags, _pending_work_items=pending, _work_ids=queue.Queue(), _queue_count=n_pending,
                               _executor_manager_thread_wakeup=wake, _executor_manager_thread=None,
                               _shutdown_lock=flags.shutdown_lock, _call_queue=None, _result_queue=None,
                               _processes_management_lock=None,
                               _ensure_executor_running=lambda: None)
    me = types.SimpleNamespace(
        result_queue=types.SimpleNamespace(close=lambda: None),
        thread_wakeup=wake,
        processes=procs, pending_work_items=pending, executor_flags=flags,
        shutdown_lock=threading.Lock(), processes_management_lock=threading.Lock(),
        call_queue=types.SimpleNamespace(close=lambda: None, join_thread=lambda: None, put_nowait=lambda x: None,
                                         full=lambda: False, _maxsize=10),
    )
    T = pe._ExecutorManagerThread
    for nm in ("kill_workers", "shutdown_workers", "get_n_children_alive"):
        setattr(me, nm, types.MethodType(getattr(T, nm), me))

    def join_internals():
        hook("before join_executor_internals")
        return T.join_executor_internals(me)
    me.join_executor_internals = join_internals
    saved = (pe.kill_process_tree,)
    import joblib.externals.loky.backend.utils as lu
    saved_sleep = lu.time
    lu.time = types.SimpleNamespace(sleep=lambda s: None)

    def kill(p):
        hook("before killing worker %d" % p.pid)
    pe.kill_process_tree = kill
    try:
        hook("before terminate_broken")
        if flavour == 0:
            T.terminate_broken(me, bpe)
        else:
            flags.flag_as_shutting_down()
        hook("after terminate_broken returned")
        hook("later")
        # what get_reusable_executor / LokyBackend.terminate do with the executor they still hold
        try:
            pe.ProcessPoolExecutor.shutdown(ex, wait=True, kill_workers=True)
        except BaseException as e:              # noqa
            outcome["shutdown_raised"] = e
    finally:
        pe.kill_process_tree, = saved
        lu.time = saved_sleep
    if "shutdown_raised" in outcome:
        e = outcome["shutdown_raised"]
        H.note("shutdown() of the executor after the death was handled raised %s: %s (every later call would fail)" % (
            type(e).__name__, e))
        return False
    if "at" not in outcome:
        return True                  # hook index beyond this run's hooks
    where = "submit %s (%d workers, %d pending)" % (outcome["at"], n_workers, n_pending)
    if "raised" in outcome:
        e = outcome["raised"]
        if flavour == 0 and e is not bpe:
            H.note("%s on a broken executor raised %s: %s instead of the TerminatedWorkerError" % (where, type(e).__name__, e))
            return False
        if flavour == 1 and not isinstance(e, pe.ShutdownExecutorError):
            H.note("%s on a shut down executor raised %r" % (where, e))
            return False
        return True
    fu = outcome["future"]
    if flavour == 1:
        if outcome["at"] != "before terminate_broken":
            H.note("%s was accepted by a shut down executor" % where)
            return False
        return True
    if not fu.done() or fu.exception() is not bpe:
        H.note("%s was accepted but its future is never completed: the call waits for ever" % where)
        return False
    return True


def ob_submit_race(n_pending: int, k: int, flavour: int) -> bool:
    """
    pre: 0 <= n_pending <= 3
    pre: 0 <= k <= 12
    pre: 0 <= flavour <= 1
    post: _
    """
    H.enter()
    nw = H.P("n_workers")
    npend, kk, fl = H.select(n_pending, 0, 3), H.select(k, 0, 12), H.select(flavour, 0, 1)
    with H.native():
        return H.verdict(_submit_race(nw, npend, kk, fl))


def _startup(n_workers, k, already):
    """The real submit() + _ensure_executor_running() on a stub executor (stub process spawning, stub thread start); the
    manager thread, once started, may get the CPU at hook #k and run one iteration of its loop head: it consumes the
    pending wake-up and snapshots the worker sentinels it is going to wait on.  When submit() has returned, either a
    wake-up is still pending or the manager's wait set covers every worker - otherwise a death goes unnoticed."""
    import queue
    import joblib.externals.loky.process_executor as pe
    st = {"started": False, "wake_pending": False, "waiting_on": None, "n": 0}
    procs = {}

    def manager_iteration():
        if st["started"] and st["waiting_on"] is None:
            # wait_result_broken_or_wakeup: the wake-up reader is ready -> clear it, go round, wait again on the
            # sentinels known *now*
            st["wake_pending"] = False
            st["waiting_on"] = {p.sentinel for p in procs.values()}

    def hook():
        if st["n"] == k:
            manager_iteration()
        st["n"] += 1

    class Wake:
        def wakeup(self):
            if st["waiting_on"] is not None:
                st["waiting_on"] = None          # a waiting manager wakes up and re-reads the process table
                st["wake_pending"] = False
                if st["started"]:
                    st["waiting_on"] = {p.sentinel for p in procs.values()}
            else:
                st["wake_pending"] = True
            hook()

    class Lock:
        def __enter__(self):
            hook()

        def __exit__(self, *a):
            hook()
            return False

    def adjust():
        hook()
        while len(procs) < n_workers:
            procs[100 + len(procs)] = Proc(len(procs), True, None)
            hook()

    def start_thread():
        hook()
        st["started"] = True
        hook()
    for i in range(already):
        procs[100 + i] = Proc(i, True, None)
    flags = pe._ExecutorFlags(threading.Lock())
    ex = types.SimpleNamespace(_flags=flags, _pending_work_items={}, _work_ids=queue.Queue(), _queue_count=0,
                               _executor_manager_thread_wakeup=Wake(), _processes=procs, _max_workers=n_workers,
                               _processes_management_lock=Lock(), _adjust_process_count=adjust,
                               _start_executor_manager_thread=start_thread)
    ex._ensure_executor_running = types.MethodType(pe.ProcessPoolExecutor._ensure_executor_running, ex)
    pe.ProcessPoolExecutor.submit(ex, lambda: 1)
    hook()
    manager_iteration() if k >= st["n"] else None       # it runs at the latest now
    want = {p.sentinel for p in procs.values()}
    if not st["started"]:
        H.note("the manager thread was never started")
        return False
    if len(procs) != n_workers:
        H.note("%d workers spawned, %d requested" % (len(procs), n_workers))
        return False
    if st["waiting_on"] is not None and not st["wake_pending"] and not want <= st["waiting_on"]:
        H.note("after submit() returned the manager thread waits on %d of the %d worker sentinels and no wake-up is "
               "pending (it ran at hook %d): the death of the other workers goes unnoticed" % (
                   len(st["waiting_on"] & want), len(want), k))
        return False
    return True


def ob_startup(k: int, already: int) -> bool:
    """
    pre: 0 <= k <= 14
    pre: 0 <= already <= 3
    post: _
    """
    H.enter()
    nw = H.P("n_workers")
    H.assume(already <= nw)
    kk, al = H.select(k, 0, 14), H.select(already, 0, 3)
    with H.native():
        return H.verdict(_startup(nw, kk, al))


def ob_exitcode(e: int) -> bool:
    """
    pre: -66 <= e <= 12 or 254 <= e <= 256
    post: _
    """
    H.enter()
    import joblib.externals.loky.backend.utils as lu
    out = lu._format_exitcodes([e])
    return H.verdict(isinstance(out, str) and str(e) in out, "exit code %r formatted as %r" % (e, out))


def ob_reuse(prev: int, want: int, broken: bool, shutdown: bool, started: bool, same_args: bool) -> bool:
    """
    pre: 1 <= prev <= 4 and 1 <= want <= 4
    post: _
    """
    H.enter()
    pv, wt = H.select(prev, 1, 4), H.select(want, 1, 4)
    br, sd, st, sa = bool(broken), bool(shutdown), bool(started), bool(same_args)
    with H.native():
        import joblib.externals.loky.reusable_executor as re_
        log = []

        class FakeProc:
            def __init__(self):
                self.alive = True

            def is_alive(self):
                return self.alive

        class Stub(re_._ReusablePoolExecutor):
            def __init__(self, lock, max_workers=None, executor_id=0, **kw):
                self._submit_resize_lock = lock
                self._max_workers = max_workers
                self.executor_id = executor_id
                self._flags = types.SimpleNamespace(broken=None, shutdown=False)
                self._executor_manager_thread = None
                self._processes_management_lock = threading.Lock()
                self._processes = {}
                stub = self

                class Q:
                    def put(self, item):
                        log.append(("stop-one-worker", stub.executor_id))
                        if stub._processes:
                            stub._processes.pop(next(iter(stub._processes)))
                self._call_queue = Q()
                log.append(("created", executor_id, max_workers))

            def _wait_job_completion(self):
                log.append(("wait-jobs", self.executor_id))

            def _adjust_process_count(self):
                while len(self._processes) < self._max_workers:
                    self._processes[len(self._processes) + 1000 * len(log)] = FakeProc()
                log.append(("adjust", self.executor_id, len(self._processes)))

            def shutdown(self, wait=True, kill_workers=False):
                log.append(("shutdown", self.executor_id))
                self._flags.shutdown = True

        saved = (re_._executor, re_._executor_kwargs, re_.time)
        re_._executor = re_._executor_kwargs = None
        re_.time = types.SimpleNamespace(sleep=lambda s: None)
        try:
            ex1, reused1 = Stub.get_reusable_executor(max_workers=pv, timeout=10)
            if st:
                ex1._executor_manager_thread = object()
                for i in range(pv):
                    ex1._processes[i] = FakeProc()
            if br:
                ex1._flags.broken = RuntimeError("worker died")
            if sd:
                ex1._flags.shutdown = True
            ex2, reused2 = Stub.get_reusable_executor(max_workers=wt, timeout=10 if sa else 20)
            ok = True
            must_renew = br or sd or not sa
            if must_renew and (ex2 is ex1 or reused2):
                H.note("a broken / shut down / differently configured executor was reused")
                ok = False
            if not must_renew and (ex2 is not ex1 or not reused2):
                H.note("a healthy executor with the same arguments was not reused")
                ok = False
            if ex2._max_workers != wt:
                H.note("asked for %d workers, executor has _max_workers=%d (previous %d)" % (wt, ex2._max_workers, pv))
                ok = False
            if not must_renew and st and len(ex2._processes) != wt:
                H.note("asked for %d workers, %d worker processes remain (previous %d)" % (wt, len(ex2._processes), pv))
                ok = False
            if ex2._flags.broken or ex2._flags.shutdown:
                H.note("the executor handed out is broken or shut down")
                ok = False
            return H.verdict(ok)
        finally:
            re_._executor, re_._executor_kwargs, re_.time = saved


_BASE = {}


def prepare(params):
    if "kill_cfg" not in params:
        return
    o = parlib.run(_cfg(params, None, False), {})
    _BASE["steps"] = o.steps + 6


def _cfg(params, kill_at, idle_kill):
    calls = [dict(n_tasks=4), dict(n_tasks=3), dict(n_tasks=2)]
    hooks = {}
    if idle_kill:
        def setup(sim, p, out):
            orig = p._terminate_and_reset

            def t_and_r():
                r = orig()
                if len(out.calls) == 0 and sim.executor_state["executor"] is not None and not out.__dict__.get("idle_done"):
                    # a worker dies while idle right after the first call finished
                    sim.executor_state["executor"].broken = True
                    out.idle_done = True
                return r
            p._terminate_and_reset = t_and_r
        hooks["setup"] = setup
    return dict(backend="loky", n_workers=2, pre_dispatch=2, batch_size=1, return_as=params.get("return_as", "list"),
                calls=calls, use_with=params.get("use_with", False), kill_at=kill_at, hooks=hooks)


def ob_kill(kill_at: int, idle: bool, pos0: int, pk: int, pos1: int) -> bool:
    """
    pre: 0 <= kill_at <= 7
    pre: -1 <= pos0 <= 900 and -1 <= pos1 <= 900
    pre: 0 <= pk <= 0
    post: _
    """
    H.enter()
    steps = _BASE["steps"]
    H.assume(pos0 <= steps and pos1 <= steps)
    if H.P("K", 1) < 2:
        H.assume(pos1 == -1)
    else:
        H.assume(pos1 == -1 or (pos0 >= 0 and pos1 > pos0 and pos1 % 4 == 0))
    p1 = H.select_bisect(pos1, -1, steps)
    ka, idl, p0, pkv = H.select(kill_at, 0, 7), bool(idle), H.select_bisect(pos0, -1, steps), 0
    if idl:
        H.assume(kill_at == 7)          # the idle fault replaces the in-flight one
    with H.native():
        from joblib.externals.loky.process_executor import TerminatedWorkerError
        pre = [(p, 0) for p in (p0, p1) if p >= 0]
        o = parlib.run(_cfg(H.PARAMS, None if idl else ka, idl), dict(preempt=pre, picks=[pkv]))
        probs = []
        if o.hang:
            probs.append("hang: %s" % o.hang)
        if o.cb_errors:
            probs.append("callback thread raised: %r" % (o.cb_errors,))
        if len(o.calls) != 3:
            probs.append("only %d of 3 calls finished" % len(o.calls))
        failed = 0
        for k, rec in enumerate(o.calls):
            n = [4, 3, 2][k]
            if rec["exc"] is not None:
                failed += 1
                if not isinstance(rec["exc"], TerminatedWorkerError):
                    probs.append("call %d raised %r instead of a worker-termination error" % (k, rec["exc"]))
            elif list(rec["result"]) != [(k, i) for i in range(n)]:
                probs.append("call %d returned %r (partial or wrong results)" % (k, rec["result"]))
        died = any(e[0] == "worker-died" for e in o.sim.events) or idl
        if failed > (1 if died else 0):
            probs.append("%d calls failed for one fault" % failed)
        if o.leftovers:
            probs.append("work of a finished call ran later: %r" % (o.leftovers[:2],))
        for m in probs:
            H.note("death at batch %s preempt=%r: %s" % ("idle" if idl else ka, pre, m))
        return H.verdict(not probs)


def validate():
    rows = []
    rows.append(("manager step baseline: sentinel only => broken", _manager_step(2, 2, False, False, [True, False], [False, True], 0), ""))
    rows.append(("manager step baseline: result ready => not broken", _manager_step(2, 1, True, False, [False, False], [True, True], 0), ""))
    import signal
    import joblib.externals.loky.backend.utils as lu
    rows.append(("exit code naming", "SIGKILL(-9)" in lu._format_exitcodes([-9]), lu._format_exitcodes([-9])))
    return rows


def obligations(tier, seed):
    obs = []
    for nw in (1, 2, 3):
        obs.append({"name": "manager/%d_workers" % nw, "fn": "ob_manager", "mode": "T", "params": {"n_workers": nw},
                    "timeout": 600, "bounds": "%d workers: readiness of result / wake-up / each sentinel, liveness, recv in "
                                              "{result, remote traceback, raises}, 0..3 pending items" % nw})
    for nw in (1, 3):
        obs.append({"name": "submit_race/%d_workers" % nw, "fn": "ob_submit_race", "mode": "S", "params": {"n_workers": nw},
                    "timeout": 300, "bounds": "one submit() by the calling thread at any statement boundary of terminate_broken "
                                              "(%d workers, 0..3 pending items): it raises the TerminatedWorkerError or its "
                                              "future is failed with it; a shut down executor raises ShutdownExecutorError" % nw})
    for nw in (1, 3):
        obs.append({"name": "startup/%d_workers" % nw, "fn": "ob_startup", "mode": "S", "params": {"n_workers": nw},
                    "timeout": 120, "bounds": "first submit() on an executor with 0..%d of its %d workers already running: the "
                                              "freshly started manager thread takes the CPU at any statement boundary" % (nw, nw)})
    obs.append({"name": "exitcode", "fn": "ob_exitcode", "mode": "T", "timeout": 300,
                "bounds": "exit code symbolic in [-66, 12] or [254, 256]"})
    obs.append({"name": "reuse", "fn": "ob_reuse", "mode": "S", "timeout": 300,
                "bounds": "previous / requested workers 1..4, broken, shut down, manager thread started, same arguments or not"})
    for ra, uw in [("list", False), ("list", True), ("generator", False)]:
        obs.append({"name": "kill/%s/with=%s" % (ra, uw), "fn": "ob_kill", "mode": "S",
                    "params": {"kill_cfg": True, "return_as": ra, "use_with": uw, "K": 1 if tier == "quick" else 2},
                    "timeout": 900 if tier == "quick" else 3400,
                    "bounds": "3 calls (4, 3, 2 tasks); the worker running batch 0..7 dies, or a worker dies while idle after "
                              "call 0; one pre-emption anywhere; 2 picks"})
    return obs
