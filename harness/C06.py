"""C06 - Memory serves repeated calls from cache whatever the equivalent call form.

S obligations (solver-driven exhaustive case split; the body of each case runs the real Memory code natively on
the model file system):
  equiv/<program>/<config>  call(form1, va, vb) ; [process boundary] ; check_call_in_cache + call(form2, va, vb) in any
                            other equivalent form ; a third call with a different value must execute.
                            Oracle: the body runs exactly once per distinct typed binding; check_call_in_cache is True
                            exactly when the next identical call does not execute; nothing raises.
  ignore/<program>          ignore=['b']: calls differing only in b hit; calls differing in a miss.
  containers                dict / set / frozenset / nested arguments rebuilt in another insertion order hit.
  accepts                   every call shape inspect.Signature.bind accepts is accepted by the cached wrapper and by
                            check_call_in_cache (symbolic shape as in C07, values concrete).
"""
import inspect
from typing import List

from symx import H
from harness import memcalls, memlib

PROPERTY = "C06"
DESIGN_REF = "DESIGN.md section 4.6"
TECHNIQUE = ("solver-driven exhaustive case analysis (CrossHair+z3 selectors) of call histories with an execution "
             "counter through the real Memory code on a model file system; call-shape acceptance symbolic as in C07")
LEVEL_TEXT = ("All pairs of equivalent call forms x typed values x {compress, process boundary (new Memory / pickled "
              "wrapper), verbosity} for 4 program families, ignore lists, and re-ordered container arguments: second "
              "call never executes the body, check_call_in_cache agrees, different bindings always execute.")
LEVEL_NOTE = ("Trusted: CrossHair/z3 for completeness of the case split; file-system model; md5. functools.partial "
              "objects are outside (documented: cannot be inspected). Outside: histories > 3 calls, eviction/clear "
              "interplay (C18), concurrency (C11).")
EXPLANATION = "Execution-counting histories of equivalent call forms vs a reference cache model."
STUBS = ["fakefs", "fake clock", "warnings/traceback/pydoc cuts", "print cut for verbose>0"]
ASSUMES = ["values from the typed universe", "no eviction/clear between the calls"]
OUTSIDE = ["functools.partial and other uninspectable callables", "lambdas"]

U = memcalls.U
PROGS = ["f", "g", "k1.m", "co"]
BOUNDARY = ["none", "memory", "pickle"]


def _equiv_history(prog, form1, form2, ia, ia3, vb_kind, compress, boundary, verbose, check_first):
    w = memcalls.World(compress=compress, verbose=verbose)
    forms = memcalls.forms_for(prog)
    f1, f2 = forms[form1][0], forms[form2][0]
    vb = [2, 2.0, "a"][vb_kind]
    if vb_kind != 0 and (f1 in memcalls.DEFAULT_ONLY or f2 in memcalls.DEFAULT_ONLY):
        return None
    problems = []
    import builtins
    import joblib.memory as jm
    import joblib.logger as jl
    with memlib.env(w.fs, w.clock):
        w.new_process()
        problems += w.call(prog, f1, U[ia], vb)
        if boundary != "none":
            w.new_process(boundary)
            if boundary == "pickle":
                w.ns = memlib.define(w.fs, "memcalls_mod", memcalls.SRC) if False else w.ns
        problems += w.call(prog, f2, U[ia], vb, check_first=check_first)
        if ia3 != ia:
            problems += w.call(prog, f2, U[ia3], vb, check_first=check_first)
    return [m for kind, m in problems]


def ob_equiv(form1: int, form2: int, ia: int, ia3: int, vb_kind: int, check_first: bool) -> bool:
    """
    pre: 0 <= form1 <= 7 and 0 <= form2 <= 7
    pre: 0 <= ia <= 10 and 0 <= ia3 <= 10
    pre: 0 <= vb_kind <= 2
    post: _
    """
    H.enter()
    prog = H.P("program")
    na = H.P("n_values", 11)
    H.assume(ia < na)
    # the third call uses the next value of the universe (a near-collision neighbour) or the same one
    H.assume(ia3 == ia or ia3 == (ia + 1) % 11)
    a1, a3 = H.select(ia, 0, 10), H.select(ia3, 0, 10)
    nf = len(memcalls.forms_for(prog))
    H.assume(form1 < nf and form2 < nf)
    fm1, fm2, vk = H.select(form1, 0, nf - 1), H.select(form2, 0, nf - 1), H.select(vb_kind, 0, 2)
    cf = bool(check_first)
    with H.native():
        res = _equiv_history(prog, fm1, fm2, a1, a3, vk, H.P("compress"), H.P("boundary"), H.P("verbose", 0), cf)
        if res is None:
            H.assume(False)
        for m in res:
            H.note(m)
        return H.verdict(not res)


def ob_ignore(form1: int, form2: int, ia: int, ib1: int, ib2: int, other_a: bool) -> bool:
    """
    pre: 0 <= form1 <= 2 and 0 <= form2 <= 2
    pre: 0 <= ia <= 3 and 0 <= ib1 <= 3 and 0 <= ib2 <= 3
    post: _
    """
    H.enter()
    prog = H.P("program")
    fm1, fm2 = H.select(form1, 0, 2), H.select(form2, 0, 2)
    a, b1, b2 = H.select(ia, 0, 3), H.select(ib1, 0, 3), H.select(ib2, 0, 3)
    oa = bool(other_a)
    with H.native():
        w = memcalls.World()
        forms = memcalls.forms_for(prog)
        problems = []
        with memlib.env(w.fs, w.clock):
            w.new_process()
            problems += w.call(prog, forms[fm1][0], U[a], U[b1], ignore=("b",))
            a2 = (a + 1) % 11 if oa else a
            problems += w.call(prog, forms[fm2][0], U[a2], U[b2], ignore=("b",), check_first=True)
        for kind, m in problems:
            H.note(m)
        return H.verdict(not problems)


CONTAINERS = [
    (lambda w: {"x": 1, "y": 2}, lambda w: {"y": 2, "x": 1}),
    (lambda w: {0, 8, 16}, lambda w: {16, 8, 0}),
    (lambda w: {"k": {8, 0}}, lambda w: {"k": {0, 8}}),
    (lambda w: [{"b": 1, "a": 2}], lambda w: [{"a": 2, "b": 1}]),
    (lambda w: frozenset([0, 8]), lambda w: frozenset([8, 0])),
    (lambda w: {1: "a", 2: "b", 3: "c"}, lambda w: {3: "c", 1: "a", 2: "b"}),
    (lambda w: ({"p", "q"}, {"q": 1, "p": 2}), lambda w: ({"q", "p"}, {"p": 2, "q": 1})),
    # keys of mixed types go through the digest-ordered fallback; -1 and -2 collide under the builtin hash
    (lambda w: {-1: "x", -2: "y", "s": 0}, lambda w: {"s": 0, -2: "y", -1: "x"}),
    (lambda w: {-1, -2, "s", None}, lambda w: {None, "s", -2, -1}),
    # an argument that holds the Memory itself (an estimator with a `memory` attribute, the self of a cached method):
    # in the next process it is another Memory object on the same location, created at another time
    (lambda w: w.mem, lambda w: w.mem),
    (lambda w: {"memory": w.mem, "n": 3}, lambda w: {"n": 3, "memory": w.mem}),
]


def ob_containers(ci: int, form1: int, form2: int, boundary: int) -> bool:
    """
    pre: 0 <= ci <= 10
    pre: 0 <= form1 <= 3 and 0 <= form2 <= 3
    pre: 0 <= boundary <= 1
    post: _
    """
    H.enter()
    c, fm1, fm2, bd = H.select(ci, 0, 10), H.select(form1, 0, 3), H.select(form2, 0, 3), H.select(boundary, 0, 1)
    with H.native():
        w = memcalls.World()
        forms = memcalls.forms_for("f")
        problems = []
        with memlib.env(w.fs, w.clock):
            w.new_process()
            problems += w.call("f", forms[fm1][0], CONTAINERS[c][0](w), 2)
            if bd:
                w.new_process("memory")
            problems += w.call("f", forms[fm2][0], CONTAINERS[c][1](w), 2, check_first=True)
        for kind, m in problems:
            H.note(m)
        return H.verdict(not problems)


MAIN_PATHS = ["/vfs/src/job.py", "/vfs/src/sub/../job.py", "/vfs/src//job.py", "/vfs/src/./job.py", "/vfs/src/sub/../../src/job.py"]
MAIN_SRC = "LOG = []\ndef f(a):\n    LOG.append(a)\n    return ('main', a)\n"


def ob_main_script(p1: int, p2: int, a: int) -> bool:
    """
    pre: 0 <= p1 <= 4 and 0 <= p2 <= 4
    pre: 0 <= a <= 1
    post: _
    """
    H.enter()
    # a function of the __main__ script, the script being launched through different spellings of the same path in two
    # processes sharing one cache directory (python job.py / python ../job.py from a sub-directory / ...)
    i1, i2, aa = H.select(p1, 0, 4), H.select(p2, 0, 4), H.select(a, 0, 1)
    with H.native():
        from symx.stubs import fakefs
        fs = fakefs.FS()
        clock = memlib.Clock()
        probs = []
        with memlib.env(fs, clock):
            fs.dirs.update({"/vfs/src", "/vfs/src/sub"})
            fs.files["/vfs/src/job.py"] = MAIN_SRC.encode()
            runs = []
            for path in (MAIN_PATHS[i1], MAIN_PATHS[i2]):
                memlib.fresh_process()
                ns = {"__name__": "__main__", "__file__": path}
                exec(compile(MAIN_SRC, path, "exec"), ns)
                f = ns["f"]
                f.__module__ = "__main__"
                g = memlib.new_memory().cache(f)
                incache = g.check_call_in_cache(aa)
                v = g(aa)
                runs.append((incache, len(ns["LOG"]), v))
            if runs[0][1] != 1 or runs[0][2] != ("main", aa):
                probs.append("first process: %r" % (runs[0],))
            if runs[1][0] is not True or runs[1][1] != 0 or runs[1][2] != ("main", aa):
                probs.append("script launched as %r then as %r: second process check_call_in_cache=%r, body ran %d times" % (
                    MAIN_PATHS[i1], MAIN_PATHS[i2], runs[1][0], runs[1][1]))
        for m in probs:
            H.note(m)
        return H.verdict(not probs)


def ob_two_stores(order: int, a: int, form: int) -> bool:
    """
    pre: 0 <= order <= 2
    pre: 0 <= a <= 3 and 0 <= form <= 3
    post: _
    """
    H.enter()
    # one process caches the same function through two Memory objects (two directories); a fresh process then repeats
    # the call against either directory: both are hits
    od, aa, fm = H.select(order, 0, 2), H.select(a, 0, 3), H.select(form, 0, 3)
    with H.native():
        from joblib import Memory
        from symx.stubs import fakefs
        fs = fakefs.FS()
        clock = memlib.Clock()
        probs = []
        forms = memcalls.forms_for("f")
        with memlib.env(fs, clock):
            memlib.fresh_process()
            ns = memlib.define(fs, "memcalls_mod", memcalls.SRC)
            stores = [memlib.CACHE + "_A", memlib.CACHE + "_B"]
            first = [[0, 1], [1, 0], [0, 1, 0]][od]
            for i in first:
                args, kwargs = forms[fm][1](memcalls.U[aa], 2)
                Memory(stores[i], verbose=0).cache(ns["f"])(*args, **kwargs)
            for i in (1, 0):
                memlib.fresh_process()
                ns = memlib.define(fs, "memcalls_mod", memcalls.SRC)
                g = Memory(stores[i], verbose=0).cache(ns["f"])
                args, kwargs = forms[0][1](memcalls.U[aa], 2)
                del ns["LOG"][:]
                inc = g.check_call_in_cache(*args, **kwargs)
                g(*args, **kwargs)
                if inc is not True or ns["LOG"]:
                    probs.append("fresh process on store %s: check_call_in_cache=%r, body ran %d times" % ("AB"[i], inc, len(ns["LOG"])))
        for m in probs:
            H.note("stores called in order %r: %s" % (first, m))
        return H.verdict(not probs)


def ob_accepts(args: List[int], k_a: bool, k_b: bool, k_k: bool, extra: bool) -> bool:
    """
    pre: len(args) <= 4
    post: _
    """
    H.enter()
    # every call the plain function accepts is accepted by the wrapper (shape symbolic, values concrete ints)
    n = len(args)
    nn = H.select(n, 0, 4)
    ka, kb, kk, ex = bool(k_a), bool(k_b), bool(k_k), bool(extra)
    with H.native():
        w = memcalls.World()
        with memlib.env(w.fs, w.clock):
            w.new_process()
            plain = memcalls.resolve(w.ns, H.P("program"))
            cargs = tuple(range(100, 100 + nn))
            kwargs = {}
            if ka:
                kwargs["a"] = 200
            if kb:
                kwargs["b"] = 201
            if kk:
                kwargs["k"] = 202
            if ex:
                kwargs["zz"] = 203
            try:
                inspect.signature(plain).bind(*cargs, **kwargs)
            except TypeError:
                H.assume(False)
            wr = w.wrapper(H.P("program"), ())
            try:
                before = wr.check_call_in_cache(*cargs, **kwargs)
                got = wr(*cargs, **kwargs)
                after = wr.check_call_in_cache(*cargs, **kwargs)
            except Exception as e:
                return H.verdict(False, "wrapper rejected %r %r: %s: %s" % (cargs, kwargs, type(e).__name__, e))
            ok = got == plain(*cargs, **kwargs) and before is False and after is True
            return H.verdict(ok, "call %r %r: got %r, check before/after %r/%r" % (cargs, kwargs, got, before, after))


INTERNAL_NAMES = ["func", "self", "args", "kwargs", "ignore_lst", "call_id", "shelving", "cls", "metadata",
                  "object_name", "output", "fn", "function", "a"]
NAME_VERBOSE = [0, 1, 11, 50]
NAME_APIS = ["call", "shelve", "check", "force"]


def ob_names(ni: int, vi: int, api: int, kw_form: bool) -> bool:
    """
    pre: 0 <= ni <= 13
    pre: 0 <= vi <= 3
    pre: 0 <= api <= 3
    post: _
    """
    H.enter()
    # a parameter may carry any name - also one that joblib uses for its own parameters; a call that spells it as a
    # keyword is accepted by every entry point of the wrapper, at every verbosity (messages format the call)
    name, vb, ap = INTERNAL_NAMES[H.select(ni, 0, 13)], NAME_VERBOSE[H.select(vi, 0, 3)], NAME_APIS[H.select(api, 0, 3)]
    kf = bool(kw_form)
    with H.native():
        import contextlib
        import io
        from symx.stubs import fakefs
        fs = fakefs.FS()
        clock = memlib.Clock()
        src = "LOG = []\ndef fn(%s, other=2):\n    LOG.append(1)\n    return ('fn', %s, other)\n" % (name, name)
        with memlib.env(fs, clock), contextlib.redirect_stdout(io.StringIO()), contextlib.redirect_stderr(io.StringIO()):
            memlib.fresh_process()
            ns = memlib.define(fs, "c06names", src)
            mem = memlib.new_memory(verbose=vb)
            w = mem.cache(ns["fn"])
            args, kwargs = ((), {name: 7}) if kf else ((7,), {})
            want = ("fn", 7, 2)
            try:
                if ap == "call":
                    got = w(*args, **kwargs)
                elif ap == "shelve":
                    got = w.call_and_shelve(*args, **kwargs).get()
                elif ap == "force":
                    got = w.call(*args, **kwargs)[0]         # documented: (output, metadata)
                else:
                    got = want if w.check_call_in_cache(*args, **kwargs) is False else "check_call_in_cache said True"
                # the same call again, spelled the other way, is the same entry
                del ns["LOG"][:]
                again = w(7) if kf else w(**{name: 7})
                hit = (len(ns["LOG"]) == 0) if ap != "check" else (len(ns["LOG"]) == 1)
            except Exception as e:
                return H.verdict(False, "fn(%s, other=2) called with %r %r through %s at verbose=%d: %s: %s" % (
                    name, args, kwargs, ap, vb, type(e).__name__, e))
            ok = got == want and again == want and hit
            return H.verdict(ok, "fn(%s, other=2) %r %r via %s verbose=%d: got %r, again %r, hit=%r" % (
                name, args, kwargs, ap, vb, got, again, hit))


def validate():
    from symx.stubs import fakefs
    rows = fakefs.selfcheck()
    r = _equiv_history("f", 0, 2, 0, 1, 0, False, "memory", 0, True)
    rows.append(("reference history is clean on the current tree", r == [], str(r)))
    return rows


def obligations(tier, seed):
    obs = []
    obs.append({"name": "names", "fn": "ob_names", "mode": "S", "timeout": 600,
                "bounds": "a parameter named like one of 13 joblib-internal parameter names (func, self, args, ...) passed "
                          "by keyword or by position, through __call__ / call_and_shelve / check_call_in_cache / call, "
                          "verbose in {0, 1, 11, 50}"})
    for prog in PROGS:
        cfgs = [(False, "none", 0), (False, "memory", 0), (False, "pickle", 2), (True, "memory", 0)]
        if tier == "thorough":
            cfgs += [(3, "pickle", 0), (True, "none", 2), (False, "pickle", 0), (False, "memory", 2)]
        for comp, b, verb in cfgs:
            if prog == "co" and b == "pickle":
                continue
            obs.append({"name": "equiv/%s/compress=%s/boundary=%s/verbose=%d" % (prog, comp, b, verb), "fn": "ob_equiv",
                        "mode": "S", "params": {"program": prog, "compress": comp, "boundary": b, "verbose": verb,
                                                "n_values": (4 if prog == "g" else 6) if tier == "quick" else 11},
                        "timeout": 600 if tier == "quick" else 2400,
                        "bounds": "forms 6x6, a in universe[:%d], third call same/neighbour value, b in {default, 2.0, 'a'}, "
                                  "check_call_in_cache first or not" % (6 if tier == "quick" else 11)})
    for prog in ("f", "k1.m"):
        obs.append({"name": "ignore/%s" % prog, "fn": "ob_ignore", "mode": "S", "params": {"program": prog},
                    "timeout": 900, "bounds": "ignore=['b']: forms 3x3, a, b1, b2 in universe[:4], second call same or other a"})
    obs.append({"name": "two_stores", "fn": "ob_two_stores", "mode": "S", "timeout": 300,
                "bounds": "the same function cached in two directories by one process (3 call orders), then a fresh process per directory"})
    obs.append({"name": "main_script", "fn": "ob_main_script", "mode": "S", "timeout": 300,
                "bounds": "a __main__ function, the script path spelled in 5 equivalent ways, two processes, arg 0..1"})
    obs.append({"name": "containers", "fn": "ob_containers", "mode": "S", "timeout": 300,
                "bounds": "7 container arguments rebuilt in another insertion order, forms 4x4, same/fresh process"})
    for prog in ("f", "g"):
        obs.append({"name": "accepts/%s" % prog, "fn": "ob_accepts", "mode": "S", "params": {"program": prog},
                    "timeout": 300, "bounds": "0..4 positionals, keywords a/b/k/zz in any combination"})
    return obs
