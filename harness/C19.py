"""C19 - numpy arrays persist bit-exactly and memory-map faithfully.

  framing/write, framing/read (T)  the inline payload framing - NumpyArrayWrapper.write_array / read_array / read_mmap on a
                                   length-only file model with a *symbolic file position* (0..10^9) and payload size: the
                                   padding byte is in 1..16, the payload starts 16-aligned, the reader consumes exactly
                                   what the writer produced and read_mmap's offset is the writer's data start.
  roundtrip/<compressor> (S)       real numpy: dtype x shape x layout selectors (structured, object, datetime, both
                                   endiannesses, 0-d, empty, n-d, C / Fortran / strided / transposed / reversed, memmap-
                                   backed, subclass, nested in containers) dumped and loaded under every compressor:
                                   identical dtype, shape, order flags and element bytes.
  mmap (S)                         uncompressed dump loaded with mmap_mode: numpy.memmap is replaced by a view on the
                                   model file's bytes at the offset/shape/order joblib computes (the C-level mmap is outside
                                   the encoding): equal contents, 16-byte aligned offset, nested arrays in order.
  memmap_reduce (S)                _get_backing_memmap / _reduce_memmap_backed on real read-only memmaps created before
                                   the analysis starts: views (slices, rows, columns, strided) rebuilt from the reduction
                                   show the same values.
"""
import io
import types

from symx import H

PROPERTY = "C19"
DESIGN_REF = "DESIGN.md section 4.19"
TECHNIQUE = ("bounded symbolic execution (CrossHair+z3) of the array framing arithmetic with a symbolic file position; "
             "solver-enumerated dtype/shape/layout/compressor selectors through the real dump/load with real numpy")
LEVEL_TEXT = ("Framing: every file position 0..10^9 and payload length decided symbolically (padding, alignment, reader/"
              "writer/mmap agreement). Arrays: 14 dtypes x 7 shapes x 6 layouts x 6 compressors by solver-driven split "
              "with real numpy: bit-exact dtype/shape/order/bytes; mmap loading with a faithful view model; reduction of "
              "memmap-backed views.")
LEVEL_NOTE = ("Trusted: CrossHair/z3; numpy's C routines (tobytes, frombuffer, nditer); np.memmap replaced by a byte view "
              "of the model file at joblib's offset. Outside: the kernel's mmap, automatic memmapping through real loky "
              "workers (only the reducer is exercised), arrays larger than a few KiB.")
EXPLANATION = "Symbolic framing arithmetic + selector-driven real-numpy round trips."
STUBS = ["length-only file handle and array/np stubs for the framing obligations", "fakefs + make_memmap view model for mmap"]
ASSUMES = ["numpy available in /verif/.np (otherwise only the framing obligations run)"]
OUTSIDE = ["real mmap system call", "worker-side memmapping through loky", "large arrays"]
VALIDATE_NUMPY = True


class FH:
    """File handle model: position + log of writes (content concrete and small)."""

    def __init__(self, pos):
        self.pos = pos
        self.writes = []

    def tell(self):
        return self.pos

    def write(self, b):
        self.writes.append(b)
        self.pos += len(b)
        return len(b)


class Chunk:
    def __init__(self, b):
        self.b = b

    def tobytes(self, order):
        return self.b


class FNP:
    @staticmethod
    def nditer(array, flags, buffersize, order):
        return [Chunk(array.payload)]


class FArr:
    def __init__(self, payload, itemsize=1):
        self.payload = payload
        self.itemsize = itemsize
        self.dtype = types.SimpleNamespace(hasobject=False)


def ob_framing_write(pos: int) -> bool:
    """
    pre: 0 <= pos <= 10**9
    post: _
    """
    H.enter()
    from joblib.numpy_pickle import NumpyArrayWrapper
    n = H.P("n", 3)
    w = NumpyArrayWrapper(object, (n,), "C", None)
    fh = FH(pos)
    payload = b"abcde"[:n]
    w.write_array(FArr(payload), types.SimpleNamespace(file_handle=fh, np=FNP))
    pad = fh.writes[0]
    k = pad[0]
    data_start = pos + 1 + k
    ok = len(pad) == 1 and 1 <= k <= 16 and data_start % 16 == 0
    ok = ok and fh.pos == data_start + len(payload) and b"".join(fh.writes[2:] if k else fh.writes[1:]) == payload
    ok = ok and (k == 0 or fh.writes[1] == b"\xff" * k)
    return H.verdict(ok, "pos=%r: padding byte %r, data would start at %r" % (pos, k, data_start))


class RFH:
    """Reader over what a writer produced at a symbolic absolute position."""

    def __init__(self, base, data):
        self.base, self.data, self.i = base, data, 0
        self.name = "model"

    def tell(self):
        return self.base + self.i

    def read(self, n):
        out = self.data[self.i:self.i + n]
        self.i += len(out)
        return out

    def seek(self, p, whence=0):
        self.i = p - self.base
        return p


def ob_framing_read(pos: int, mmap: bool) -> bool:
    """
    pre: 0 <= pos <= 10**9
    post: _
    """
    H.enter()
    import joblib.numpy_pickle as jnp
    from joblib.numpy_pickle import NumpyArrayWrapper
    w = NumpyArrayWrapper(object, (3,), "C", types.SimpleNamespace(hasobject=False, itemsize=1))
    fh = FH(pos)
    w.write_array(FArr(b"xyz"), types.SimpleNamespace(file_handle=fh, np=FNP))
    data = b"".join(fh.writes)
    data_start = pos + len(data) - 3
    r = RFH(pos, data + b"TRAILER")
    if mmap:
        seen = {}

        def fake_make_memmap(filename, dtype, shape, order, mode, offset):
            seen["offset"] = offset
            return types.SimpleNamespace(nbytes=3)
        old = jnp.make_memmap
        jnp.make_memmap = fake_make_memmap
        try:
            w.read_mmap(types.SimpleNamespace(file_handle=r, mmap_mode="r", filename="f"))
        finally:
            jnp.make_memmap = old
        ok = seen["offset"] == data_start and seen["offset"] % 16 == 0 and r.tell() == data_start + 3
        return H.verdict(ok, "pos=%r: mmap offset %r, writer's data start %r" % (pos, seen.get("offset"), data_start))
    # read_array: consume the padding exactly
    pb = r.read(1)
    k = int.from_bytes(pb, byteorder="little")
    if k:
        r.read(k)
    ok = r.tell() == data_start and r.read(3) == b"xyz" and r.read(7) == b"TRAILER"
    return H.verdict(ok, "pos=%r: reader stands at %r, data start %r" % (pos, r.tell(), data_start))


# ----------------------------------------------------------------------------------------------------- real numpy
def _dtypes(np):
    return ["<f8", ">f8", "<i4", ">i2", "u1", "?", "<c16", "S3", "<U2", "<M8[ns]", "<m8[s]",
            np.dtype([("a", "<i4"), ("b", ">f8")]), np.dtype([("p", "u1"), ("q", "<f4", (2,))]), "O"]


SHAPES = [(), (0,), (5,), (2, 3), (3, 1, 2), (0, 3), (4, 4)]
LAYOUTS = ["C", "F", "strided", "transposed", "reversed", "fortran_strided"]


def _make(np, di, si, li):
    dt = np.dtype(_dtypes(np)[di])
    shape = SHAPES[si]
    n = 1
    for s in shape:
        n *= s
    m = max(n, 1) * 2
    if dt == np.dtype("O"):
        flat = np.empty(m, dtype=object)
        for i in range(m):
            flat[i] = [i, "x"] if i % 3 == 0 else (None if i % 3 == 1 else i * 1.5)
    elif dt.kind in "SU":
        flat = np.array([("%d" % i)[-2:] for i in range(m)], dtype=dt)
    elif dt.kind in "Mm":
        flat = np.arange(m).astype(dt)
    elif dt.names:
        flat = np.zeros(m, dtype=dt)
        for nm in dt.names:
            flat[nm] = (np.arange(m * int(np.prod(dt[nm].shape or (1,)))).reshape((m,) + dt[nm].shape) % 100).astype(dt[nm].base)
    elif dt.kind == "c":
        flat = (np.arange(m) + 1j * np.arange(m)[::-1]).astype(dt)
    elif dt.kind == "b":
        flat = (np.arange(m) % 2).astype(dt)
    else:
        flat = (np.arange(m) * 3 - 7).astype(dt)
    base = flat[:n].reshape(shape)
    lay = LAYOUTS[li]
    if base.ndim == 0:
        return base.copy()              # (ascontiguousarray would promote a 0-d array to 1-d)
    if lay == "C":
        return np.ascontiguousarray(base)
    if lay == "F":
        return np.asfortranarray(base)
    if lay == "strided":
        if base.ndim == 0:
            return base
        big = np.empty((shape[0] * 2,) + tuple(shape[1:]), dtype=dt)
        big[::2] = base
        big[1::2] = base
        return big[::2]                 # every other row of a larger array: non-contiguous, same values
    if lay == "transposed":
        return base.T
    if lay == "reversed":
        return base[::-1] if base.ndim else base
    if lay == "fortran_strided":
        f = np.asfortranarray(base)
        return f[::2] if f.ndim else f
    raise AssertionError


def _same_array(np, a, b, exact=False):
    """exact=False: load()'s documented default (ensure_native_byte_order='auto') converts to the native byte order -
    dtypes are compared modulo byte order and the *values* must agree; exact=True: identical dtype and bytes."""
    a0 = a
    if type(a) is not type(b) and not (isinstance(a, np.memmap) or isinstance(b, np.memmap)):
        return "type %s vs %s" % (type(a).__name__, type(b).__name__)
    if not exact and a.dtype != b.dtype:
        if a.dtype.newbyteorder("=") != b.dtype.newbyteorder("=") or not b.dtype.isnative:
            return "dtype %s vs %s" % (a.dtype, b.dtype)
        if a.shape != b.shape:
            return "shape %s vs %s" % (a.shape, b.shape)
        if a.astype(b.dtype).tobytes("C") != b.tobytes("C"):
            return "values differ after byte-order normalisation"
        a = a.astype(b.dtype, order="K")
    if a.dtype != b.dtype:
        return "dtype %s vs %s" % (a.dtype, b.dtype)
    if a.shape != b.shape:
        return "shape %s vs %s" % (a.shape, b.shape)
    if a.dtype == object:
        if a.ravel().tolist() != b.ravel().tolist():
            return "object elements differ"
        return None
    if a.tobytes("A") != b.tobytes("A") and a.tobytes("C") != b.tobytes("C"):
        return "element bytes differ"
    if a.tobytes("C") != b.tobytes("C"):
        return "logical element order differs"
    if a.ndim > 1 and a.size > 1:
        fa = a0.flags["F_CONTIGUOUS"] and not a0.flags["C_CONTIGUOUS"]
        fb = b.flags["F_CONTIGUOUS"] and not b.flags["C_CONTIGUOUS"]
        if fa != fb:
            return "memory order: original F-only=%r, loaded F-only=%r" % (fa, fb)
    return None


COMPS = [None, "zlib", "gzip", "bz2", "lzma", "xz"]


def ob_roundtrip(di: int, si: int, li: int, nested: bool, native: bool) -> bool:
    """
    pre: 0 <= di <= 13
    pre: 0 <= si <= 6
    pre: 0 <= li <= 5
    post: _
    """
    H.enter()
    d, s, la, ne, nat = H.select(di, 0, 13), H.select(si, 0, 6), H.select(li, 0, 5), bool(nested), bool(native)
    with H.native():
        import numpy as np
        import joblib
        arr = _make(np, d, s, la)
        obj = {"first": [1, arr], "again": arr, "other": np.arange(3)} if ne else arr
        buf = io.BytesIO()
        comp = H.P("compressor")
        joblib.dump(obj, buf, compress=(comp, 3) if comp else 0)
        if nat:
            back = joblib.load(io.BytesIO(buf.getvalue()))                      # documented default: native byte order
        else:
            back = joblib.load(io.BytesIO(buf.getvalue()), ensure_native_byte_order=False)
        got = back["first"][1] if ne else back
        why = _same_array(np, arr, got, exact=not nat)
        if why is None and ne:
            if _same_array(np, arr, back["again"], exact=not nat) is not None or back["other"].tolist() != [0, 1, 2] or back["first"][0] != 1:
                why = "container content differs"
        return H.verdict(why is None, "dtype %s shape %s layout %s %s: %s" % (arr.dtype, arr.shape, LAYOUTS[la], comp, why))


def ob_subclass(ki: int, nested: bool, ci: int) -> bool:
    """
    pre: 0 <= ki <= 3
    pre: 0 <= ci <= 2
    post: _
    """
    H.enter()
    # ndarray *subclasses* keep their class and their extra state (mask, fill value, record access)
    k, ne, c = H.select(ki, 0, 3), bool(nested), H.select(ci, 0, 2)
    with H.native():
        import numpy as np
        import joblib
        x = [lambda: np.ma.masked_array([1, 2, 3, 4], mask=[0, 1, 0, 1], fill_value=9),
             lambda: np.ma.masked_array(np.arange(6.0).reshape(2, 3), mask=[[0, 0, 1], [1, 0, 0]]),
             lambda: np.rec.array([(1, 2.5), (3, 4.5)], dtype=[("a", "<i4"), ("b", "<f8")]),
             lambda: np.arange(6, dtype="<i4").reshape(2, 3)][k]()
        obj = {"k": [x, 1], "again": x} if ne else x
        comp = [0, ("zlib", 3), ("lzma", 1)][c]
        buf = io.BytesIO()
        joblib.dump(obj, buf, compress=comp)
        back = joblib.load(io.BytesIO(buf.getvalue()))
        got = back["k"][0] if ne else back
        why = None
        if type(got) is not type(x):
            why = "loaded as %s, dumped a %s" % (type(got).__name__, type(x).__name__)
        elif isinstance(x, np.ma.MaskedArray):
            if not (np.array_equal(np.ma.getmaskarray(got), np.ma.getmaskarray(x)) and got.fill_value == x.fill_value
                    and np.array_equal(got.filled(-1), x.filled(-1))):
                why = "mask / fill value / data differ: %r" % (got,)
        elif isinstance(x, np.recarray):
            if not (got.dtype == x.dtype and got.a.tolist() == x.a.tolist() and got.b.tolist() == x.b.tolist()):
                why = "record content differs: %r" % (got,)
        elif not np.array_equal(got, x):
            why = "content differs"
        return H.verdict(why is None, "%s (nested=%r, compress=%r): %s" % (type(x).__name__, ne, comp, why))


def ob_forward(thr: int, mutate: bool, layout: int) -> bool:
    """
    pre: 0 <= thr <= 3
    pre: 0 <= layout <= 2
    post: _
    """
    H.enter()
    # An in-memory array sent to process workers twice from one managed Parallel context (ArrayMemmapForwardReducer:
    # dumped to the pool's temporary folder above max_nbytes, pickled below): what the task sees is what the caller holds
    # *at the time of the call*.
    t, mu, la = H.select(thr, 0, 3), bool(mutate), H.select(layout, 0, 2)
    # the array is changed in place between the two calls: recorded finding (the dump is cached by object identity)
    H.known("KF-C19-stale-memmap-after-inplace-mutation", mu and t <= 1)
    with H.native():
        import numpy as np
        import joblib.numpy_pickle as jnp
        import joblib.numpy_pickle_utils as jnu
        import joblib._memmapping_reducer as mr
        from symx.stubs import fakefs
        a = [np.arange(64, dtype="<f8"), np.asfortranarray(np.arange(64, dtype="<i4").reshape(8, 8)),
             np.arange(128, dtype="<f8")[::2]][la]
        a = a.copy() if la != 1 else a
        max_nbytes = [0, a.nbytes - 1, a.nbytes, None][t]
        fs = fakefs.FS()
        fs.raw_reads = True
        old_raw, old_mm, old_rt = jnu._is_raw_file, jnp.make_memmap, mr.resource_tracker
        jnu._is_raw_file = lambda f: isinstance(getattr(f, "raw", f), (io.FileIO, fakefs.FakeRaw))

        def view_memmap(filename, dtype="uint8", mode="r+", offset=0, shape=None, order="C", unlink_on_gc_collect=False):
            cnt = int(np.prod(shape)) if shape != () else 1

            class _View(np.ndarray):           # numpy.memmap's extra attribute
                filename = None
            v = np.frombuffer(fs.files[filename], dtype=dtype, count=cnt, offset=offset).reshape(shape, order=order).view(_View)
            v.filename = filename
            return v
        registered = []
        mr.resource_tracker = type("RT", (), {"register": staticmethod(lambda n, t_: registered.append(n)),
                                              "maybe_unlink": staticmethod(lambda n, t_: None),
                                              "unregister": staticmethod(lambda n, t_: None)})
        jnp.make_memmap = view_memmap
        why = None
        try:
            with fakefs.installed(fs):
                fs.dirs.add(fakefs.PREFIX + "/pool")
                red = mr.ArrayMemmapForwardReducer(max_nbytes, lambda: fakefs.PREFIX + "/pool/tmp", "r", False, prewarm=False)
                for call in (1, 2):
                    fn, args = red(a)
                    seen = fn(*args)
                    if not (seen.shape == a.shape and seen.dtype == a.dtype and np.array_equal(np.asarray(seen), a)):
                        why = "call %d: the worker sees %r..., the caller holds %r..." % (
                            call, np.asarray(seen).ravel()[:3].tolist(), a.ravel()[:3].tolist())
                        break
                    memmapped = fn is mr.load_temporary_memmap
                    if max_nbytes is not None and (a.nbytes > max_nbytes) != memmapped:
                        why = "nbytes=%d max_nbytes=%r: memmapped=%r" % (a.nbytes, max_nbytes, memmapped)
                        break
                    if mu:
                        a[...] = a * 0 - 1            # in place: same object, other content
        finally:
            jnp.make_memmap, jnu._is_raw_file, mr.resource_tracker = old_mm, old_raw, old_rt
        return H.verdict(why is None, "max_nbytes=%r layout=%d mutated in place=%r: %s" % (max_nbytes, la, mu, why))


def ob_mmap(di: int, si: int, li: int, mode: int, lead: int) -> bool:
    """
    pre: 0 <= di <= 12
    pre: 0 <= si <= 6
    pre: 0 <= li <= 1
    pre: 0 <= mode <= 3
    pre: 0 <= lead <= 3
    post: _
    """
    H.enter()
    d, s, la, mo, ld = H.select(di, 0, 12), H.select(si, 0, 6), H.select(li, 0, 1), H.select(mode, 0, 3), H.select(lead, 0, 3)
    with H.native():
        import numpy as np
        import joblib
        import joblib.numpy_pickle as jnp
        from symx.stubs import fakefs
        arr = _make(np, d, s, la)
        arr2 = np.arange(7, dtype="<i8")
        obj = ["x" * [0, 1, 7, 16][ld], arr, {"k": arr2}]        # a leading string shifts every following offset
        fs = fakefs.FS()
        fs.raw_reads = True
        import joblib.numpy_pickle_utils as jnu
        old_raw = jnu._is_raw_file
        jnu._is_raw_file = lambda f: isinstance(getattr(f, "raw", f), (io.FileIO, fakefs.FakeRaw))
        seen = []

        def view_memmap(filename, dtype="uint8", mode="r+", offset=0, shape=None, order="C", unlink_on_gc_collect=False):
            if mode == "w+":
                # numpy.memmap(mode='w+') creates / truncates the file and zero-fills it
                need = offset + (int(np.prod(shape)) if shape != () else 1) * np.dtype(dtype).itemsize
                fs.files[filename] = b"\x00" * need
            data = fs.files[filename]
            cnt = int(np.prod(shape)) if shape != () else 1
            seen.append(offset)
            v = np.frombuffer(data, dtype=dtype, count=cnt, offset=offset)
            return v.reshape(shape, order=order)
        old = jnp.make_memmap
        jnp.make_memmap = view_memmap
        try:
            with fakefs.installed(fs):
                path = fakefs.PREFIX + "/arr.pkl"
                joblib.dump(obj, path)
                back = joblib.load(path, mmap_mode=["r", "r+", "c", "w+"][mo])
        finally:
            jnp.make_memmap = old
            jnu._is_raw_file = old_raw
        why = _same_array(np, arr, back[1], exact=True) or _same_array(np, arr2, back[2]["k"])
        if why is None and back[0] != obj[0]:
            why = "leading string differs"
        if why is None and any(o % 16 for o in seen):
            why = "memory-mapped at unaligned offsets %r" % (seen,)
        if why is None and len(seen) != (2 if arr.dtype != object else 1):
            why = "%d arrays were memory-mapped" % len(seen)
        return H.verdict(why is None, "dtype %s shape %s layout %s mmap_mode %s: %s" % (
            arr.dtype, arr.shape, LAYOUTS[la], ["r", "r+", "c", "w+"][mo], why))


_MM = {}


def prepare(params):
    if not params.get("memmap"):
        return
    import tempfile
    import os
    import numpy as np
    d = tempfile.mkdtemp(prefix="c19mm_")
    path = os.path.join(d, "m.bin")
    w = np.memmap(path, dtype="<f8", mode="w+", shape=(6, 8), offset=64)
    w[:] = np.arange(48).reshape(6, 8) + 0.5
    w.flush()
    del w
    _MM["path"] = path
    _MM["m"] = np.memmap(path, dtype="<f8", mode="r", shape=(6, 8), offset=64)
    _MM["f"] = np.memmap(path, dtype="<f8", mode="r", shape=(8, 6), offset=64, order="F")


VIEWS = ["m", "m[2:]", "m[3]", "m[:, 2:5]", "m[1:5, 3:7]", "m[::2]", "m[:, ::3]", "np.asarray(m)[2:]", "m[4:, 1]",
         "f", "f[2:]", "f[:, 1:4]", "m[1:2, :]", "m.T", "m[::-1]", "m.T[1:]", "m[::-1, ::2]", "f.T",
         # the same bytes under another dtype (reinterpreting views)
         "m.view('<i8')", "m.view('>f8')", "m[2:].view('<u4')", "m.view('u1')[:, 3:40]", "m[1:3].view('<i2')[:, ::2]"]


def ob_memmap_reduce(vi: int) -> bool:
    """
    pre: 0 <= vi <= 22
    post: _
    """
    H.enter()
    v = H.select(vi, 0, 22)
    with H.native():
        import numpy as np
        from joblib._memmapping_reducer import _get_backing_memmap, _reduce_memmap_backed
        a = eval(VIEWS[v], {"m": _MM["m"], "f": _MM["f"], "np": np})
        base = _get_backing_memmap(a)
        if base is None:
            return H.verdict(False, "%s: backing memmap not found" % VIEWS[v])
        fn, args = _reduce_memmap_backed(a, base)
        rebuilt = fn(*args)
        ok = rebuilt.shape == a.shape and rebuilt.dtype == a.dtype and np.array_equal(np.asarray(rebuilt), np.asarray(a))
        return H.verdict(ok, "%s: a worker would see %r, the parent has %r" % (
            VIEWS[v], np.asarray(rebuilt).ravel()[:4].tolist(), np.asarray(a).ravel()[:4].tolist()))


def validate():
    rows = []
    try:
        import numpy as np
    except ImportError:
        return [("numpy not installed: only framing obligations run", True, "")]
    import joblib
    a = np.arange(6, dtype=">i2").reshape(2, 3)
    b = io.BytesIO()
    joblib.dump(a, b)
    back = joblib.load(io.BytesIO(b.getvalue()))
    rows.append(("baseline round trip", _same_array(np, a, back) is None, str(_same_array(np, a, back))))
    rows.append(("oracle sees a changed element", _same_array(np, a, a + 1) is not None, ""))
    rows.append(("oracle sees a changed order", _same_array(np, np.asfortranarray(a), np.ascontiguousarray(a)) is not None, ""))
    for di in range(14):
        for si in range(7):
            for li in range(6):
                _make(np, di, si, li)
    rows.append(("generator builds all 588 arrays", True, ""))
    return rows


def obligations(tier, seed):
    import os
    obs = [{"name": "framing/write/n%d" % n, "fn": "ob_framing_write", "mode": "T", "timeout": 200, "params": {"n": n},
            "bounds": "file position symbolic in [0, 10^9], payload of %d bytes" % n} for n in (0, 3)] + [
           {"name": "framing/read", "fn": "ob_framing_read", "mode": "T", "timeout": 200,
            "bounds": "file position symbolic in [0, 10^9]; read_array and read_mmap against the writer"}]
    have_np = os.path.isdir(os.path.join(os.path.dirname(os.path.dirname(os.path.abspath(__file__))), ".np", "numpy"))
    if not have_np:
        return obs
    for comp in COMPS if tier == "thorough" else [None, "zlib", "xz"]:
        obs.append({"name": "roundtrip/%s" % comp, "fn": "ob_roundtrip", "mode": "S", "numpy": True,
                    "params": {"compressor": comp}, "timeout": 1500,
                    "bounds": "14 dtypes x 7 shapes x 6 layouts x (bare | nested in containers, shared)"})
    obs.append({"name": "mmap", "fn": "ob_mmap", "mode": "S", "numpy": True, "timeout": 1500,
                "bounds": "13 dtypes x 7 shapes x C/F x 4 mmap modes x 4 leading-string lengths"})
    obs.append({"name": "forward_reducer", "fn": "ob_forward", "mode": "S", "numpy": True, "timeout": 300,
                "kf": ["KF-C19-stale-memmap-after-inplace-mutation"],
                "bounds": "an in-memory array (C, Fortran, strided) sent to workers twice through ArrayMemmapForwardReducer, "
                          "max_nbytes in {0, nbytes-1, nbytes, None}, changed in place between the calls or not"})
    obs.append({"name": "subclass", "fn": "ob_subclass", "mode": "S", "numpy": True, "timeout": 300,
                "bounds": "MaskedArray (1-d with fill value, 2-d), recarray and a plain array, bare or nested, uncompressed / zlib / lzma"})
    obs.append({"name": "memmap_reduce", "fn": "ob_memmap_reduce", "mode": "S", "numpy": True, "params": {"memmap": True},
                "timeout": 300, "bounds": "23 views (slices, rows, columns, strided, transposed, reversed, reinterpreted under another dtype) of C- and F-ordered read-only memmaps with a non-zero file offset"})
    return obs
